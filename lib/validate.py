import json, sys, glob
import jsonschema
m = json.load(open('MANIFEST.json'))
jsonschema.validate(m, json.load(open('/root/.vp/MANIFEST.schema.json')))
es = json.load(open('/root/.vp/EVIDENCE.schema.json'))
for f in sorted(glob.glob('evidence/*.json')):
    jsonschema.validate(json.load(open(f)), es)
    print('ok', f)
print('manifest ok:', len(m['checks']), 'checks')
