"""Per-property configuration: which binary/flavour, how many cases, gates, evidence text."""

RUNNER_TUS = {
    'fuzz': ['fuzz_uci.cpp'],
    'fuzzbook': ['fuzz_book.cpp'],
    'runner': ['rc_driver.cpp', 'pbt_movegen.cpp', 'pbt_position.cpp', 'pbt_moves.cpp', 'exh_tables.cpp', 'pbt_eval.cpp', 'pbt_book.cpp', 'pbt_search.cpp', 'sched_uci.cpp', 'sched_exit.cpp', 'pbt_session.cpp'],
}

ORACLE_ASSUMPTION = ('ref/refchess.h (independent mailbox rules oracle) is correct; it is validated on every run by '
                     'ref/selftest.cpp against the perft counts published in the repository\'s tests/run_perft_tests.sh')

PROPS = {
    'C01': dict(
        level='exploration',
        technique='property-based testing (rapidcheck), differential against an independent rules oracle',
        level_text=('Generated-input search: rapidcheck tapes -> positions (games, constructed FENs, themed pin/en-passant/check/castling '
                    'constructors); engine move SET compared with an independent mailbox oracle at every node of a lock-step tree walk. '
                    'One root in twelve also goes through the real UCI text path (position ... moves ..., perft 1|2 of the in-process Uci::loop). '
                    'A sample of a ~10^44 domain, with generator-health gates on the narrow classes (pinned en passant, rank exposure, double check, attacked castling path).'),
        level_note=ORACLE_ASSUMPTION + '; no absence proof - a sample.',
        rule=('Roots: rapidcheck choice tapes decoded by gen/posgen.h into legal games (G-walk), constructed FEN positions '
              '(G-fen, 7 material profiles) and themed constructors (pinned/rank-exposed en passant, single/double checks, '
              'castling paths, 7th-rank pawns, like-piece swarms); from each root engine and oracle walk the move tree in '
              'lock-step (depth 2 quick / 3 thorough, node budget) comparing the generated move SET with the oracle legal set '
              'and checking for duplicates; evaluations = positions compared. Non-trivial = distinct positions (by placement, '
              'side, rights, ep square) with at least one of: side in check, pinned piece/king restriction (pseudo-legal != legal), '
              'ep square set, pawn on the 7th, castling right for the mover.'),
        assumptions=[ORACLE_ASSUMPTION, 'generated positions satisfy ref::domain_violation()=="" (the domain in the property text)'],
        quick=dict(cases=260, shards=16, max_size=100, scale=6,
                   gates={'c01:ep_legal_by_pinned_capturer': 5, 'c01:ep_illegal_rank_exposure': 5, 'c01:double_check': 20,
                          'c01:castle_path_attacked': 20, 'c01:ep_legal': 50, 'c01:castle_legal': 50},
                   min_nontrivial=10000),
        thorough=dict(cases=1500, shards=16, max_size=100, scale=6, opts=['nodes=6000'],
                      gates={'c01:ep_legal_by_pinned_capturer': 50, 'c01:ep_illegal_rank_exposure': 50, 'c01:double_check': 200,
                             'c01:castle_path_attacked': 200},
                      min_nontrivial=100000),
    ),
}

PBT = 'property-based testing (rapidcheck choice tapes, structured generators, shrinking)'

PROPS['C02'] = dict(
    level='exploration',
    technique=PBT + '; differential (FEN after do_move) against the rules oracle',
    level_text=('Generated (position, move) pairs and whole games: the engine plays each move through parse_uci + do_move (the path '
                '`position ... moves` uses) and its six-field FEN is compared with the oracle\'s make(); games are compared after every ply; '
                'one case in six drives the real UCI commands (position / moves / printboard) of the in-process Uci::loop; one game case in forty is a legal game of 760-1,100 plies.'),
    level_note=ORACLE_ASSUMPTION + '; FEN en-passant convention = square set after every double push (what the engine prints).',
    rule=('Cases: (a) every legal move of a generated root and of its children (budgeted), (b) G-game histories of up to 250 (quick) / 600 (thorough) plies '
          'with shuffle / capture / quiet phases. evaluations = (position, move) pairs compared on all six FEN fields. Non-trivial = distinct (position, move) '
          'where the move is a castle, en passant, promotion, double push, king/rook move with rights, or captures a home rook whose right still exists.'),
    assumptions=[ORACLE_ASSUMPTION],
    quick=dict(cases=1760, shards=16, scale=8,
               gates={'c02:castle_white_short_clock>0': 5, 'c02:castle_white_long_clock>0': 5, 'c02:castle_black_short_clock>0': 5,
                      'c02:castle_black_long_clock>0': 5, 'c02:ep_by_white': 10, 'c02:ep_by_black': 10, 'c02:promo_q': 20, 'c02:promo_n': 20,
                      'c02:promo_r_capture': 10, 'c02:capture_home_rook_with_right': 10, 'c02:games': 300},
               min_nontrivial=5000),
    thorough=dict(cases=20000, shards=16, scale=10, gates={'c02:games': 5000}, min_nontrivial=100000),
)
PROPS['C03'] = dict(
    level='exploration',
    technique=PBT + '; model-based (snapshot stack) over generated do/undo/null-move operation lists',
    level_text=('Stateful generation: random tree walks of do / undo / null-move operations on one live Position; a stack of full snapshots '
                '(FEN, both keys, 64 squares, piece-list multisets, repetition/draw answers, static evaluation, generated move set) is the model; '
                'every undo must restore the snapshot, the line replayed from scratch must agree, perft must leave the position untouched.'),
    level_note='Null moves only where the search can make them (not in check, never twice in a row). Static evaluation via one long-lived evaluator (cache never cleared here).',
    rule=('One case = a root position + up to 300 (quick) / 600 (thorough) operations, depth <= 40. evaluations = undo comparisons (+ perft / rebuild brackets). '
          'Non-trivial = distinct walks (root, move list) that contain an undone castle / en passant / promotion or a null move with an en-passant square pending and reach depth >= 3.'),
    assumptions=['snapshot equality uses piece lists as multisets (list order may legitimately change)'],
    quick=dict(cases=1400, shards=16, scale=8,
               gates={'c03:castle': 50, 'c03:ep': 20, 'c03:promo_capture': 20, 'c03:null': 200, 'c03:null_with_ep_pending': 5, 'c03:depth>=10': 100},
               min_nontrivial=500),
    thorough=dict(cases=15000, shards=16, scale=10, gates={'c03:null_with_ep_pending': 50}, min_nontrivial=10000),
)
PROPS['C04'] = dict(
    level='exploration',
    technique=PBT + '; from-scratch recomputation, transposition buckets, metamorphic key changes',
    level_text=('Every position visited in generated games (with null-move probes) is checked: incremental key == key of Position(fen()); '
                'a process-wide map position->key / key->position over all cases enforces "same position => same key, different position => different key" '
                '(also for pawn placement <-> pawn key); explicit move-order permutations create transpositions; children and parents are observed again after make/unmake; metamorphic FEN edits must change the key.'),
    level_note='Keys are random per process; the verdict uses only (in)equalities inside one process. A true 64-bit collision (p < 1e-7 per run) would be re-tested by the 3x replay rule.',
    rule=('evaluations = key observations. Non-trivial = distinct positions reached by at least two different paths (transposition confirmed) or probed with a null move while an en-passant square was pending.'),
    assumptions=[ORACLE_ASSUMPTION],
    quick=dict(cases=2080, shards=16, scale=8,
               gates={'c04:transposition_confirmed': 300, 'c04:null_after_double_push': 20, 'c04:permutation_line': 200, 'c04:rook_captured': 10,
                      'c04:ep_capture': 5, 'c04:meta_one_castling_right': 100},
               min_nontrivial=300),
    thorough=dict(cases=25000, shards=16, scale=8, min_nontrivial=5000),
)
PROPS['C07'] = dict(
    level='exploration',
    technique=PBT + '; differential over generated game histories against the rules oracle',
    level_text=('Oracle-driven legal games (phases of reversible shuffling, capture hunts, quiet clock run-ups; FEN starts with non-zero clocks) are mirrored '
                'on the engine with do_move; at every ply all eight predicates are compared with the answers computed from the full history.'),
    level_note=ORACLE_ASSUMPTION + '; histories stay inside legal games: clock <= 150, no position more than five times, <= 700 plies.',
    rule=('evaluations = plies checked (8 predicates each). Non-trivial = distinct (position, occurrence count, clock) where some predicate is true '
          'or the placement recurred with different rights / ep square.'),
    assumptions=[ORACLE_ASSUMPTION],
    quick=dict(cases=480, shards=16, scale=12,
               gates={'c07:threefold': 30, 'c07:threefold_nonconsecutive': 3, 'c07:clock_reaches_100': 5, 'c07:checkmate': 5, 'c07:stalemate': 2,
                      'c07:insufficient_reached_by_capture': 5, 'c07:same_placement_different_rights_or_ep': 5, 'c07:shuffle_spliced_after_rights_change': 40},
               min_nontrivial=2000),
    thorough=dict(cases=6000, shards=16, scale=16, min_nontrivial=50000),
)
PROPS['C15'] = dict(
    level='exploration',
    technique=PBT + '; differential: predicates vs the outcome of playing the move on the oracle',
    level_text='Every legal move of generated roots and sampled children: move_is_capture / move_is_quiet / move_gives_check compared with what the oracle observes after making the move.',
    level_note=ORACLE_ASSUMPTION,
    rule=('evaluations = (position, move) pairs. Non-trivial = distinct pairs where the move is special (castle, promotion, en passant) or gives check or captures.'),
    assumptions=[ORACLE_ASSUMPTION],
    quick=dict(cases=2400, shards=16, scale=6,
               gates={'c15:promo_check_by_new_piece': 20, 'c15:castle_checking': 3, 'c15:castle_not_checking': 50, 'c15:ep_discovered_check': 1,
                      'c15:discovered_check': 50, 'c15:double_check': 10},
               min_nontrivial=20000),
    thorough=dict(cases=30000, shards=16, scale=6, gates={'c15:ep_discovered_check': 10, 'c15:castle_not_checking_king_on_old_rook_file': 5}, min_nontrivial=400000),
)
PROPS['C16'] = dict(
    level='exploration',
    technique=PBT + '; round trips (uci text, FEN) + exhaustive enumeration of the move encoding',
    level_text='parse_uci(uci(m)) == m and text equality with the oracle for every generated legal move; Position(p.fen()) equals p in every observable; all 64x64x5 encodings + castling codes decoded exhaustively.',
    level_note=ORACLE_ASSUMPTION + ' (for the expected move text only).',
    rule=('evaluations = round trips. Non-trivial = distinct special moves (castles, promotions) and FENs with rights / ep / non-initial clocks. '
          'Encoding space (20,480 + 2 codes) is enumerated completely in every shard.'),
    assumptions=['half-move clocks <= 150 and full-move numbers <= 3000 (legal games)'],
    quick=dict(cases=3000, shards=16, scale=6,
               gates={'c16:castle_e1g1': 10, 'c16:castle_e1c1': 10, 'c16:castle_e8g8': 10, 'c16:castle_e8c8': 10, 'c16:promo_q': 20, 'c16:promo_n': 20,
                      'c16:fullmove>200': 50, 'c16:encoding_exhaustive_pass': 16},
               min_nontrivial=3000),
    thorough=dict(cases=30000, shards=16, scale=6, min_nontrivial=60000),
)
PROPS['C17'] = dict(
    level='exploration',
    technique=PBT + '; round trip parse_san(san(m)) == m and pairwise uniqueness of SAN strings',
    level_text='For every legal move of generated positions (incl. many-like-piece swarms, >128-move positions, checking castles, promotions) the printed SAN must parse back to exactly that move and no two legal moves may print alike; ASan watches the fixed arrays inside san().',
    level_note='Only the engine\'s own printer/parser pair is compared (the property is about that pair), no external SAN grammar.',
    rule='evaluations = moves round-tripped. Non-trivial = distinct moves needing disambiguation, castles, promotions.',
    assumptions=[],
    quick=dict(cases=960, shards=16, scale=6,
               gates={'c17:disambiguated_file_and_rank': 20, 'c17:castle_with_suffix': 2, 'c17:promotion_with_suffix': 10},
               min_nontrivial=3000),
    thorough=dict(cases=10000, shards=16, scale=6, gates={'c17:more_than_128_moves': 3, 'c17:castle_with_suffix': 20}, min_nontrivial=60000),
)
PROPS['C18'] = dict(
    level='exploration',
    technique=PBT + '; differential against an independent implementation of the Polyglot key',
    level_text='Engine book key vs ref/refpolyglot.h (written from the format description; constants in specification order) on generated positions: all 16 right subsets, en-passant with capturer left/right/both/none/pinned on every file, games; also taken from the played position object after nested make/unmake trees.',
    level_note=('Trusted base: ref/polyglot_random.h is a pinned transcription (specification order) of the constants at commit 8ca830c, cross-checked by the nine published '
                'test keys through the independent routine and by the anchor constants 0,768..780; a constant already mistyped at the pinned commit and untouched by the nine vectors would go unnoticed.'),
    rule='evaluations = keys compared. Non-trivial = distinct positions with castling rights or an en-passant square. classes report how many of the 768+4+8 constants were exercised.',
    assumptions=['ref/polyglot_random.h provenance as stated in level_note'],
    quick=dict(cases=4000, shards=16, scale=6,
               gates={'c18:ep_capturer_left': 20, 'c18:ep_capturer_right': 20, 'c18:ep_capturer_both': 5, 'c18:ep_no_capturer': 20, 'c18:ep_on_rook_file': 5,
                      'c18:rights_count_4': 50, 'c18:rights_count_1': 50},
               min_nontrivial=10000),
    thorough=dict(cases=40000, shards=16, scale=6, min_nontrivial=200000),
)

PROPS['C11'] = dict(
    level='exploration', flavour='fast',
    technique='exhaustive enumeration (all squares x all relevant-occupancy subsets, all leaper/line table entries) + rapidcheck-generated full occupancies; oracle = ray walking',
    level_text=('Complete enumeration of the finite table domain: 64 squares x every subset of the bishop/rook relevant blocker mask (107,648 entries, each also with all '
                'irrelevant bits set), all 64 knight/king/pawn entries, all 64x64 LINES / FULL_LINES entries; plus generated arbitrary 64-bit occupancies; the complete enumeration is repeated after engine workloads (evaluation, move generation, perft, SAN) because the tables are mutable globals. Oracle: coordinate ray walk to the first blocker inclusive.'),
    level_note='Exhaustive over the table domain, so within that domain this is a decision, not a sample; arbitrary occupancies reduce to it by masking (also sampled).',
    rule=('evaluations = table entries / lookups compared. Every enumerated entry is distinct by construction (counted in classes c11:slider_entries_enumerated); '
          'distinct_nontrivial counts the distinct generated (square, full occupancy) pairs on top of the enumeration.'),
    assumptions=['ray walk on an 8x8 coordinate grid is the definition of slider attacks'],
    quick=dict(cases=320, shards=4, scale=4, exhaustive=True, gates={'c11:slider_entries_enumerated': 4 * 107648, 'c11:leaper_pawn_line_tables_enumerated': 4, 'c11:re_enumerations_after_engine_activity': 16}, min_nontrivial=10000),
    thorough=dict(cases=20000, shards=16, scale=3, exhaustive=True, gates={'c11:slider_entries_enumerated': 16 * 107648}, min_nontrivial=1000000),
)
PROPS['C12'] = dict(
    level='exploration', flavour='fast',
    technique='exhaustive enumeration of all legal KPK positions against an independent retrograde solver (generated-domain differential)',
    level_text=('All legal KPK positions (both pawn colours, both sides to move, all files: 662k) are enumerated; truth comes from a retrograde least fix-point built on the rules oracle '
                '(KPK with exact KQK / KRK successor tables for promotions; captures and minor promotions are draws); compared with bitbase::normalize+check and with the evaluator\'s win/draw band; a quarter of the evaluations are preceded by the evaluation of another endgame (the verdict must not depend on history).'),
    level_note=ORACLE_ASSUMPTION + '; black-pawn positions are obtained by the colour mirror of chess (ranks flipped, colours and side to move swapped).',
    rule='evaluations = positions compared; all are distinct and non-trivial by construction (exhaustive: true); classes give totals per (pawn colour, side to move, file).',
    assumptions=[ORACLE_ASSUMPTION],
    quick=dict(cases=1, shards=1, scale=1, exhaustive=True, gates={'c12:positions': 600000}, min_nontrivial=600000),
    thorough=dict(cases=1, shards=1, scale=1, exhaustive=True, gates={'c12:positions': 600000}, min_nontrivial=600000),
)
PROPS['C20'] = dict(
    level='exploration', flavour='fast',
    technique=PBT + '; invariants (0 <= t, 10t <= 7*time) and a metamorphic monotonicity relation over generated clock states',
    level_text='Generated (time, increment, movestogo, ply, colour) tuples with boundary bias; each checked for non-negativity, the 70% cap (integer arithmetic) and monotonicity in the remaining time (pairs time, time+delta).',
    level_note='Domain as stated in the property: time 0..24h ms, inc 0..10min, movestogo 0..200, ply 0..1000.',
    rule='evaluations = calculateTime calls checked. Non-trivial = distinct tuples (every tuple exercises the invariants); pairs with delta in {1, 10, large} counted as classes.',
    assumptions=[],
    quick=dict(cases=3000, shards=16, scale=3, gates={'c20:tiny_time': 1000, 'c20:movestogo_1': 500, 'c20:pair_delta_1': 5000, 'c20:uci_budget_single_legal_reply': 8,
                      'c20:uci_budget_remaining_time_zero': 12, 'c20:uci_budget_depth_limit_together_with_the_clock': 12}, min_nontrivial=100000),
    thorough=dict(cases=60000, shards=16, scale=3, min_nontrivial=3000000),
)

PROPS['C13'] = dict(
    level='exploration', flavour='fast',
    technique=PBT + '; metamorphic relation score(P) == score(colour-mirror(P))',
    level_text=('Generated positions over a catalogue of 35 material signatures (every specialised endgame evaluator, both colours as the strong side, with geometric biases: rook-file pawns, '
                'adjacent files, advanced pawns, kings on blockade/queening squares, pieces near the pawns) plus middlegames and many-queen positions; the evaluation must equal that of the mirrored position.'),
    level_note='The mirror (ranks flipped, colours, rights, ep square, side swapped) is done on the FEN by the harness; a mismatch is re-checked with fresh evaluators so that cache defects (C14) are not blamed on symmetry.',
    rule='evaluations = (position, mirror) pairs with sufficient mating material. Non-trivial = distinct positions (each pair exercises the relation); classes eval:sig_<signature>_<w|b> count the specialised classes per strong colour.',
    assumptions=[],
    quick=dict(cases=13500, shards=16, scale=3, gates=dict([('eval:sig_%s_%s' % (n, c), 120) for n in ['KPK','KBPsKB2','KBPKB','KQKP','KRKP','KNNKP','KQKRP','KBPsK2','KPsK2','KNBK'] for c in 'wb'] + [('eval:kbpskb_blockade_w', 300), ('eval:kbpskb_blockade_b', 300)]), min_nontrivial=30000),
    thorough=dict(cases=150000, shards=16, scale=3, min_nontrivial=2000000),
)
PROPS['C14'] = dict(
    level='exploration', flavour='fast',
    technique=PBT + '; stateful histories on one long-lived evaluator compared with a fresh evaluator (model = fresh evaluation) + mate-band bound',
    level_text=('Generated histories of eval(P) / clear() on one evaluator: positions repeating pawn structures with other pieces, pairs of pawn structures that share a cache slot (found by search over '
                'this process\'s keys), a structure whose key maps to slot 0 followed by clear() and pawnless positions, extreme material, positions reached by playing moves on one Position object; each result must equal a fresh evaluator\'s, equal the first value ever seen for that position in the process, and stay outside the mate band.'),
    level_note='Slot-colliding structures depend on the per-process random keys and are searched at start-up (counted in classes); the mate band is the engine\'s own score2str definition.',
    rule='evaluations = warm-vs-fresh comparisons. Non-trivial = distinct histories containing an expected cache hit, a slot collision member, or clear-then-pawnless.',
    assumptions=[],
    quick=dict(cases=880, shards=16, scale=3, gates={'c14:pawn_cache_hit_expected': 300, 'c14:slot_collision_eval': 300, 'c14:pawnless_after_clear': 100, 'c14:slot0_structures_found': 4, 'c14:slot0_clear_pawnless_sequence': 20}, min_nontrivial=1000),
    thorough=dict(cases=6000, shards=16, scale=3, gates={'c14:slot0_structures_found': 4}, min_nontrivial=50000),
)

PROPS['C19'] = dict(
    level='fault_enumeration', run_fn='run_c19', replay_fn='replay_c19',
    technique=PBT + ' over generated byte-level book files (well-formed, empty, truncated) plus coverage-guided libFuzzer mutation of book files with the same oracles inside the target; reference reader + exact record multiset + bounded statistics for the sampler',
    level_text=('Book files are generated as byte strings (0-40 records, keys from a pool of real positions so keys repeat, castling as king-takes-rook, promotions, weights incl. 0/1/65535, '
                'tails truncated by 1-15 bytes, empty files) and loaded by the engine; the loaded record multiset per key (read through a guarded friend hook) must equal the file\'s complete records; '
                'best = a maximal-weight move correctly decoded; random = never a zero-weight move (exact) and frequencies within 0.04 of weight/sum over 20,000 draws for every weight vector; one case in six loads two or three books in a row through `setoption` of the in-process Uci::loop (the book must be exactly the file just named).'),
    level_note='Statistical part: Hoeffding bound on a false alarm per comparison 2*exp(-2*20000*0.04^2) < 1e-27; an off-by-one boundary moves a probability by >= 1/12 > 2*0.04. Keys whose weights are all zero are outside the domain.',
    rule='evaluations = books loaded + policy checks. Non-trivial = distinct books with a repeated key, a zero weight, a truncated tail, or empty.',
    assumptions=['decode of a record in a position follows the Polyglot format text (castling stored as king-takes-rook, also accepted in king-two-squares form)'],
    quick=dict(cases=450, shards=16, scale=3, gates={'c19:truncated_file': 100, 'c19:empty_file': 30, 'c19:repeated_key': 300, 'c19:zero_weight': 200,
                                                  'c19:castling_record': 100, 'c19:promotion_record': 50, 'c19:distribution_checked': 100, 'c19:heavy_key_book': 3}, min_nontrivial=500,
               fuzz_jobs=8, fuzz_runs=30000),
    thorough=dict(cases=3000, shards=16, scale=3, min_nontrivial=20000, fuzz_jobs=16, fuzz_runs=700000),
)

SEARCH_NOTE = ('Searches run in-process (Search::go, stdout captured) on a 4,096-entry table (guarded hook) with a harness-owned node-visit callback: '
               'stop after exactly k visits, virtual clock = visits / rate, visit cap (cap hit = inconclusive, never a violation).')
PROPS['C05'] = dict(
    level='fault_enumeration',
    technique=PBT + ' with injected faults: stop delivered after exactly k node visits, adversarial transposition-table entries; legality decided by the rules oracle',
    level_text=('Generated sessions of 1-3 searches on a shared table/evaluator: positions (incl. quiescence-explosive many-queen positions) x limits {depth, nodes, movetime incl. 0/negative, clocks, infinite} '
                'x searchmoves subsets x faults {stop after exactly k visits (k small = before the first iteration completes), poisoned entries at the keys of the root, children and grandchildren with arbitrary score/depth/flag/move/epoch, both coupled}; '
                'batches of tiny endgames (every pv replayed), castling-theme roots, roots after 780-799-ply games. '
                'Oracle: exactly one bestmove, legal per the rules oracle and inside searchmoves; every pv replayed on the oracle.'),
    level_note=SEARCH_NOTE + ' ' + ORACLE_ASSUMPTION,
    rule='evaluations = searches run. Non-trivial = distinct (position, limits, fault) where a fault was exercised: stop delivered before iteration 1 completed, or a poisoned table.',
    assumptions=[ORACLE_ASSUMPTION, 'the real 4M-entry table and wall-clock polling are replaced by the small table and the virtual clock'],
    quick=dict(cases=220, shards=16, scale=4, gates={'c05:stop_before_first_iteration_completed': 150, 'c05:searches_with_poisoned_table': 200, 'c05:searchmoves': 150,
                                                  'c05:time_limited': 200, 'c05:explosive_position': 100, 'c05:search_on_used_table': 300, 'c05:tiny_endgame': 2000}, min_nontrivial=300),
    thorough=dict(cases=2000, shards=16, scale=4, min_nontrivial=10000),
)
PROPS['C08'] = dict(
    level='exploration',
    technique=PBT + '; oracle = independent exhaustive AND/OR mate solver (proof of falsity required) and mate-in-one detection by the rules oracle',
    level_text=('Generated sessions of go depth d (d=1..4 quick / 5 thorough) on a shared table: constructed mate-in-one roots, near-mates, check-heavy positions, sparse endgames (where a node can have all moves futility-pruned), '
                'catalogue positions, the same root again, forcing back-rank batches, pawn-mate skeletons and game-flow sequences (search, follow the announced line two plies, search again on the same table). (1) if the oracle finds a mate in one the bestmove must mate; (2) a final `score mate y` must be confirmed by the exhaustive solver within y moves; '
                'only a completed exhaustive refutation is a violation (budget exceeded = undecided, counted).'),
    level_note=SEARCH_NOTE + ' ' + ORACLE_ASSUMPTION + ' The engine counting plies instead of moves only weakens its claim and is not objected to.',
    rule='evaluations = searches. Non-trivial = distinct searches that had a mate in one available or ended with a mate announcement.',
    assumptions=[ORACLE_ASSUMPTION],
    quick=dict(cases=125, shards=16, scale=4, gates={'c08:mate_in_one_available': 200, 'c08:mate_announcements': 200, 'c08:kind_sparse_endgame': 60, 'c08:kind_overwhelming_material': 60, 'c08:kind_game_flow_successor': 150, 'c08:mate_in_one_by_pawn_available': 6,
               'c08:special_mate_en_passant_line_through_captured_pawn': 40, 'c08:special_mate_castling': 40, 'c08:special_mate_knight_promotion': 40, 'uci:mate_in_one_available': 30, 'c08:announcement_confirmed': 150, 'c08:mate_in_one_high_clock': 10}, min_nontrivial=300),
    thorough=dict(cases=3000, shards=16, scale=4, min_nontrivial=15000),
)
PROPS['C09'] = dict(
    level='exploration',
    technique=PBT + '; output-shape invariants over generated limits (depth incl. > 40, searchmoves subsets on warmed tables, virtual-clock budgets)',
    level_text=('Generated (position, limits): ordinary positions with depth 1..4(6), instant-search positions (all children drawn by material) with depth 1..100, time/clock limits under a virtual clock, searchmoves = random subsets, '
                'optionally after a full-width warm-up search of the same root on the same table; one case in twenty is a sequence of different go commands through the real Uci::loop under the virtual clock (each must honour its own limits; clock searches within 70% of the mover\'s time). '
                'Oracle: info depth values are exactly 1,2,..,m with m <= d, bestmove is last and inside searchmoves, time-limited searches end within budget.'),
    level_note=SEARCH_NOTE,
    rule='evaluations = searches. Non-trivial = distinct cases with depth > 40, a single-legal-move root, or searchmoves.',
    assumptions=['depth-limited searches that exceed the visit cap are counted as inconclusive'],
    quick=dict(cases=140, shards=16, scale=4, gates={'c09:depth_above_internal_maximum': 100, 'c09:searchmoves_on_warmed_table': 80, 'c09:time_limited': 200, 'c09:single_legal_move_root': 5}, min_nontrivial=300),
    thorough=dict(cases=2000, shards=16, scale=4, min_nontrivial=10000),
)

PROPS['C06'] = dict(
    level='exploration', engine='schedule enumerator + ThreadSanitizer',
    technique='generated schedules with a harness-owned scheduler (search thread parked at hook points, stop delivered there, node-count bound on bestmove) + ThreadSanitizer on free-running generated sessions',
    level_text=('Deterministic half: an in-process Uci::loop on a reader thread (std::cin/std::cout replaced by harness stream buffers); for each generated (position, go form, park point) the search thread is parked at '
                'thread start / go entry / after init / after the flag reset / node visit k / iteration end / before bestmove, the controller sends stop + isready, requires readyok while the search exists, releases the thread and requires the single bestmove '
                'within 20,000 further node visits (a node-count bound, not a wall-clock bound; ten times the measured unwinding maximum); a quarter of the cases stop in the middle of an enormous quiescence search; a third are free-running trials (no parking, bound counted from the readyok that proves the stop was processed). '
                'Race half: the same kind of sessions free-running under ThreadSanitizer; any report whose stack touches Search::stop / stop_command is a violation.'),
    level_note='Only interleavings expressible through the hook points are explored; wall-clock waits are safety nets (expiry = inconclusive, counted), never the oracle. Other ThreadSanitizer reports are listed in evidence but are not violations of this property.',
    rule='evaluations = schedules executed. Non-trivial = distinct (park point, k, position, go form) where stop was delivered to a parked search thread or after the search had finished; race-half sessions are reported under coverage.race_half.',
    assumptions=['the hook callback runs on the search thread at the documented points (engine/verif_hooks.h)'],
    run_fn='run_c06', replay_fn='replay_c06', timing_signatures=['stop:lost:free_running'],
    quick=dict(cases=40, shards=16, scale=3, race_shards=4, race_cases=4, race_min_sessions=12,
               gates={'c06:stop_delivered_at_thread_start': 5, 'c06:stop_delivered_at_go_entry': 5, 'c06:stop_delivered_at_go_after_init': 5, 'c06:stop_delivered_at_go_after_reset': 5,
                      'c06:stop_delivered_at_node_visit': 40, 'c06:stop_delivered_at_iteration_end': 4, 'c06:stop_delivered_at_before_bestmove': 3, 'c06:explosive_position': 40, 'c06:free_running_trial': 1000}, min_nontrivial=150),
    thorough=dict(cases=400, shards=16, scale=3, race_shards=16, race_cases=40, race_min_sessions=400, min_nontrivial=3000),
)

PROPS['C10'] = dict(
    level='exploration', engine='rapidcheck + libFuzzer', run_fn='run_c10', replay_fn='replay_c10',
    technique='structure-aware fuzzing of well-formed UCI sessions (rapidcheck tapes and coverage-guided libFuzzer over the same tape decoder) with AddressSanitizer / UndefinedBehaviorSanitizer as the oracle; generated exit schedules on a fresh engine object per case; the same generator in record mode feeding the real executable under valgrind memcheck',
    level_text=('Well-formed UCI sessions are decoded from a choice tape (position startpos|fen + oracle-legal moves incl. long legal games of 700-1200 plies, go with depth 1-100 / nodes / movetime / clocks / infinite+stop / searchmoves, '
                'moves, perft, printboard, hash, staticeval, uci, setoption with generated book files, ucinewgame) and fed to the in-process engine (reader thread + detached search thread) built with ASan + UBSan; '
                'a deterministic boundary suite (games of 730/799/801/1000 plies, go depth 40..1000, 218 legal moves, 9-10 pieces of a kind, searchmoves with every move) runs first in every shard. Any sanitizer report or crash is a violation.'),
    level_note='Uninitialised-value USE is only partially covered (UBSan invalid-value loads; no MSan-instrumented libstdc++ in this image); searches are bounded by a node-visit cap delivered from the search thread.',
    rule='evaluations = sessions executed. Non-trivial = distinct sessions that cross at least one buffer boundary (game >= 720 plies, go depth > 40, >= 128 legal moves, >= 9 pieces of a kind).',
    assumptions=['generated sessions are well-formed: legal positions and moves per the rules oracle, go only when a legal move exists, next command after bestmove'],
    exit_rule=('exit half: evaluations = sessions ended by quit / end of input / stop+quit while the search thread is parked at a generated schedule point (thread start, Search::go entry, '
               'after init, node visit k, iteration end, before bestmove); the harness thread does what main() does (construct Uci, loop(), destroy). Non-trivial = distinct sessions in which the search thread was '
               'really parked inside the search when the session ended.'),
    quick=dict(cases=110, shards=16, scale=6,
               valgrind=dict(sessions=5, shards=16, scale=3),
               exit=dict(cases=12, shards=16, scale=3, min_nontrivial=80, gates={'c10exit:loop_waited_for_the_search_thread': 80, 'c10exit:ending_eof': 20, 'c10exit:park_node_visit': 20}),
               fuzz_jobs=8, fuzz_runs=150,
               gates={'c10:boundary_depth_gt_40': 16, 'c10:boundary_heavy_position': 16, 'c10:go': 700, 'c10:game_ge_720_plies': 10, 'c10:depth_gt_40': 20, 'c10:ge9_of_a_kind': 10}, min_nontrivial=100),
    thorough=dict(cases=1200, shards=16, scale=6, min_nontrivial=3000, fuzz_jobs=16, fuzz_runs=5000,
                  valgrind=dict(sessions=60, shards=16, scale=4),
                  exit=dict(cases=150, shards=16, scale=3, min_nontrivial=1000)),
)

# ---- modes added after the first full version of each check (appended to the level texts of MANIFEST.json)
_SESS = (' A share of the cases are model-based UCI sessions (harness/ucisession.h): generated command sequences for the in-process Uci::loop '
         '(position new / same line again / extended line, moves, ucinewgame, go, printboard, staticeval, perft, hash, setoption book) with a reference '
         'model of the session state; only this property\'s own oracle is switched on.')
_ZM = (' The last five of the sixteen shards run with Zobrist keys that carry entropy only inside a 24-bit window (guarded hook), so any table that '
       'indexes or verifies with part of the key sees every pair of positions collide.')
_EXTRA = {
    'C01': _SESS + _ZM,
    'C02': _SESS,
    'C03': (' Two UCI-level relations on the in-process Uci::loop: hash/printboard unchanged across perft and go; and perft transparency (two sessions that '
            'differ only in a `perft k` between position and go must print the same final info line and bestmove; the game ends in a shuffle and the search is '
            'restricted to the repeating move, so the result depends on the game history).'),
    'C04': _SESS,
    'C05': _SESS + _ZM,
    'C07': (' A third of the games add look-ahead with take-back on the live object (make a move, mates and stalemates first, ask, unmake, ask the parent again); '
            '1 case in 160 is a game of 810-900 plies (beyond the 800-entry history buffer); roots from the special-move mate pool. Behind every move that changes the castling rights (king or rook leaving home, castle, rook taken on its corner) a four-ply there-and-back shuffle, kings and rooks without rights first, is spliced into the game, so the position right after the rights change recurs at once.'),
    'C08': _SESS + (' A fifth of the cases search positions from a per-process pool of mates in one whose mating move is a special move and the only kind of mate '
                    'available (en passant incl. through the captured pawn\'s square, promotions incl. knight, castling, discovered and double check), built by oracle-filtered sampling.'),
    'C09': _SESS,
    'C14': _SESS + _ZM + ' Histories also contain earlier positions minus all pieces of some kinds of one side (stale per-square members).',
    'C15': ' One case in six is a live walk on one Position object (make, classify, unmake, classify again, null-move twin); roots also come from the special-move mate pool.',
    'C17': ' One case in six is a live walk on one Position object (make, print/parse, unmake, print/parse again, null-move twin).',
    'C18': ' Neighbour positions are hashed back to back (same occupancy with another piece kind, sibling promotions).',
    'C19': _SESS,
    'C20': (' One case in 400 asks the SEARCH: `go wtime W btime B [winc binc] [movestogo] [depth d]` on the in-process Uci::loop under the virtual clock; the thinking time (node visits / clock rate) '
            'must stay within 70% of the mover\'s remaining time plus the polling granularity, also for a root with a single legal reply, for a remaining time of 0 and when a depth limit is given together with the clock.'),
    'C10': (' Exit half (prop C10exit): every case constructs its own Uci as main() does, parks the search thread at a generated schedule point and ends the session by '
            'quit / end of input / stop+quit. Valgrind half: recorded sessions are fed to the real executable (engine/main.cpp, g++ -O1 -g) under valgrind memcheck '
            'for the uninitialised-value clause.'),
}
for _p, _t in _EXTRA.items():
    PROPS[_p]['level_text'] = PROPS[_p]['level_text'] + _t
# every rapidcheck-driven shard starts with one full-size case (words from the shard seed) before rapidcheck's empty first tape

HOOK_COMMITS = ['2ee17ca', '895e75c', '46141b5', '2b4cd2f']

# Zobrist entropy windows (24 bits each) used by the last shards of C01 / C05 / C14
ZMASKS = ['00ffffff00000000', '0000000ffffff000', '0000000000ffffff', 'ffffff0000000000', '00000ffffff00000']
for _p in ('C01', 'C05', 'C14'):
    PROPS[_p]['zmask_shards'] = ZMASKS

NOT_APPLICABLE = [dict(property_id='C%02d' % i, reason='check not built yet in this session (work in progress, not a limit of the technique)')
                  for i in range(1, 21) if 'C%02d' % i not in PROPS]
