"""Per-property configuration: which binary/flavour, how many cases, gates, evidence text."""

RUNNER_TUS = {
    'runner': ['rc_driver.cpp', 'pbt_movegen.cpp'],
}

ORACLE_ASSUMPTION = ('ref/refchess.h (independent mailbox rules oracle) is correct; it is validated on every run by '
                     'ref/selftest.cpp against the perft counts published in the repository\'s tests/run_perft_tests.sh')

PROPS = {
    'C01': dict(
        level='exploration',
        technique='property-based testing (rapidcheck), differential against an independent rules oracle',
        level_text=('Generated-input search: rapidcheck tapes -> positions (games, constructed FENs, themed pin/en-passant/check/castling '
                    'constructors); engine move SET compared with an independent mailbox oracle at every node of a lock-step tree walk. '
                    'A sample of a ~10^44 domain, with generator-health gates on the narrow classes (pinned en passant, rank exposure, double check, attacked castling path).'),
        level_note=ORACLE_ASSUMPTION + '; no absence proof - a sample.',
        rule=('Roots: rapidcheck choice tapes decoded by gen/posgen.h into legal games (G-walk), constructed FEN positions '
              '(G-fen, 7 material profiles) and themed constructors (pinned/rank-exposed en passant, single/double checks, '
              'castling paths, 7th-rank pawns, like-piece swarms); from each root engine and oracle walk the move tree in '
              'lock-step (depth 2 quick / 3 thorough, node budget) comparing the generated move SET with the oracle legal set '
              'and checking for duplicates; evaluations = positions compared. Non-trivial = distinct positions (by placement, '
              'side, rights, ep square) with at least one of: side in check, pinned piece/king restriction (pseudo-legal != legal), '
              'ep square set, pawn on the 7th, castling right for the mover.'),
        assumptions=[ORACLE_ASSUMPTION, 'generated positions satisfy ref::domain_violation()=="" (the domain in the property text)'],
        quick=dict(cases=260, shards=16, max_size=100, scale=6,
                   gates={'c01:ep_legal_by_pinned_capturer': 5, 'c01:ep_illegal_rank_exposure': 5, 'c01:double_check': 20,
                          'c01:castle_path_attacked': 20, 'c01:ep_legal': 50, 'c01:castle_legal': 50},
                   min_nontrivial=10000),
        thorough=dict(cases=6000, shards=16, max_size=100, scale=6,
                      gates={'c01:ep_legal_by_pinned_capturer': 50, 'c01:ep_illegal_rank_exposure': 50, 'c01:double_check': 200,
                             'c01:castle_path_attacked': 200},
                      min_nontrivial=100000),
    ),
}

HOOK_COMMITS = []

NOT_APPLICABLE = [dict(property_id='C%02d' % i, reason='check not built yet in this session (work in progress, not a limit of the technique)')
                  for i in range(1, 21) if 'C%02d' % i not in PROPS]
