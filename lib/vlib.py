import sys, os, json, time, hashlib, subprocess, shutil, glob, re, signal
from concurrent.futures import ThreadPoolExecutor

ROOT = os.path.dirname(os.path.dirname(os.path.abspath(__file__)))
REPO = os.environ.get('VERIF_REPO', '/repo')
BUILD = os.path.join(ROOT, 'build')
NCPU = int(os.environ.get('VERIF_JOBS', '16'))

CLANG = 'clang++'
GXX = 'g++'
COMMON = ['-std=c++20', '-DNDEBUG', '-DCHESSPP_VERIF', '-DLOG_LEVEL=0', '-I', os.path.join(REPO, 'engine'),
          '-I', os.path.join(ROOT, 'harness', 'shim'), '-I', os.path.join(ROOT, 'harness'), '-pthread']
SAN_FATAL = 'bounds,object-size,null,alignment,return,unreachable,vla-bound,pointer-overflow,bool,enum'
FLAVOURS = {
    # -ftrivial-auto-var-init=pattern: automatic variables (and temporaries) that the code leaves uninitialised hold 0xAA..
    # instead of whatever was on the stack, so a use of them is deterministic: an invalid bool/enum load for UBSan, a wild
    # pointer for ASan (heap blocks are already filled with 0xbe by the ASan allocator)
    'asan': dict(cxx=CLANG, flags=['-O1', '-g', '-fno-omit-frame-pointer', '-ftrivial-auto-var-init=pattern', '-fsanitize=address,undefined',
                                   '-fno-sanitize-recover=' + SAN_FATAL, '-DCHESSPP_VERIF_TT_ENTRIES=4096'],
                 link=['-fsanitize=address,undefined', '-lrapidcheck']),
    'fast': dict(cxx=GXX, flags=['-O2', '-DCHESSPP_VERIF_TT_ENTRIES=4096'], link=['-lrapidcheck']),
    'tsan': dict(cxx=CLANG, flags=['-O1', '-g', '-fsanitize=thread', '-DCHESSPP_VERIF_TT_ENTRIES=4096'],
                 link=['-fsanitize=thread', '-lrapidcheck']),
    'cov': dict(cxx=CLANG, flags=['-O1', '-g', '-fprofile-instr-generate', '-fcoverage-mapping', '-DCHESSPP_VERIF_TT_ENTRIES=4096'],
                link=['-fprofile-instr-generate', '-lrapidcheck']),
    # the real executable for valgrind memcheck (no sanitizer, debug info, little optimisation)
    'vg': dict(cxx=GXX, flags=['-O1', '-g', '-fno-omit-frame-pointer', '-DCHESSPP_VERIF_TT_ENTRIES=4096'], link=[]),
    'fuzz': dict(cxx=CLANG, flags=['-O1', '-g', '-fno-omit-frame-pointer', '-ftrivial-auto-var-init=pattern', '-fsanitize=address,undefined,fuzzer-no-link',
                                   '-fno-sanitize-recover=' + SAN_FATAL, '-DCHESSPP_VERIF_TT_ENTRIES=4096'],
                 link=['-fsanitize=address,undefined,fuzzer']),
}
# harness translation units per flavour / binary
RUNNER_TUS = ['rc_driver.cpp', 'pbt_movegen.cpp']
from props import PROPS, RUNNER_TUS as _TUS  # noqa
RUNNER_TUS = _TUS


def log(*a):
    print(*a, file=sys.stderr, flush=True)


def sha_files(paths, extra=''):
    h = hashlib.sha256()
    h.update(extra.encode())
    for p in sorted(paths):
        h.update(p.encode())
        with open(p, 'rb') as f:
            h.update(f.read())
    return h.hexdigest()[:16]


def engine_sources():
    return sorted(p for p in glob.glob(os.path.join(REPO, 'engine', '*.cpp')) if not p.endswith('/main.cpp'))


def engine_all_files():
    return sorted(glob.glob(os.path.join(REPO, 'engine', '*.cpp')) + glob.glob(os.path.join(REPO, 'engine', '*.h')))


def harness_all_files():
    fs = []
    for d in ('harness', 'gen', 'ref', 'harness/shim'):
        fs += glob.glob(os.path.join(ROOT, d, '*.cpp')) + glob.glob(os.path.join(ROOT, d, '*.h'))
    return sorted(set(fs))


def run_cmd(cmd, **kw):
    return subprocess.run(cmd, stdout=subprocess.PIPE, stderr=subprocess.STDOUT, text=True, **kw)


def compile_many(jobs):
    """jobs: list of (cmd, outfile). Returns list of error strings."""
    errs = []

    def one(j):
        cmd, out = j
        if os.path.exists(out):
            return None
        tmp = out + '.tmp%d' % os.getpid()
        c = [x if x != out else tmp for x in cmd]
        r = run_cmd(c)
        if r.returncode != 0:
            return ' '.join(cmd) + '\n' + r.stdout[-6000:]
        os.replace(tmp, out)
        return None
    with ThreadPoolExecutor(NCPU) as ex:
        for e in ex.map(one, jobs):
            if e:
                errs.append(e)
    return errs


def prune(prefix, keep):
    """drop old build directories (disk), but never one that was used in the last 30 minutes (it may be in use by a
    concurrent check against another tree)"""
    keep = max(keep, 3)
    def mtime(d):
        try:
            return os.path.getmtime(d)
        except OSError:   # removed meanwhile by a concurrent check that pruned the same prefix
            return 0.0
    ds = sorted(((mtime(d), d) for d in glob.glob(os.path.join(BUILD, prefix + '-*'))), reverse=True)
    now = time.time()
    for m, d in ds[keep:]:
        if now - m > 1800:
            shutil.rmtree(d, ignore_errors=True)


def build(flavour, binary='runner'):
    """Build engine objects + harness for a flavour from /repo's current working tree. Returns path of the binary."""
    fl = FLAVOURS[flavour]
    flags = COMMON + fl['flags']
    eh = sha_files(engine_all_files(), ' '.join([fl['cxx']] + flags))
    edir = os.path.join(BUILD, 'eng-%s-%s' % (flavour, eh))
    os.makedirs(edir, exist_ok=True)
    jobs = []
    eobjs = []
    for src in engine_sources():
        o = os.path.join(edir, os.path.basename(src)[:-4] + '.o')
        eobjs.append(o)
        jobs.append(([fl['cxx']] + flags + ['-c', src, '-o', o], o))
    tus = RUNNER_TUS[binary]
    hh = sha_files(harness_all_files(), eh + binary)
    hdir = os.path.join(BUILD, 'har-%s-%s-%s' % (flavour, binary, hh))
    os.makedirs(hdir, exist_ok=True)
    hobjs = []
    for tu in tus:
        src = os.path.join(ROOT, 'harness', tu)
        o = os.path.join(hdir, tu[:-4] + '.o')
        hobjs.append(o)
        jobs.append(([fl['cxx']] + flags + ['-c', src, '-o', o], o))
    exe = os.path.join(hdir, binary)
    if os.path.exists(exe):
        os.utime(edir)
        os.utime(hdir)
        return exe
    t0 = time.time()
    errs = compile_many(jobs)
    if errs:
        log('BUILD FAILED (%s/%s):\n%s' % (flavour, binary, '\n'.join(errs)))
        return None
    tmpexe = exe + '.tmp%d' % os.getpid()  # concurrent checks may build the same directory
    r = run_cmd([fl['cxx']] + hobjs + eobjs + fl['link'] + ['-pthread', '-o', tmpexe])
    if r.returncode != 0:
        log('LINK FAILED (%s/%s):\n%s' % (flavour, binary, r.stdout[-6000:]))
        return None
    os.replace(tmpexe, exe)
    log('[build] %s/%s built in %.1fs' % (flavour, binary, time.time() - t0))
    prune('eng-%s' % flavour, 2)
    prune('har-%s-%s' % (flavour, binary), 2)
    return exe


def selftest():
    out = os.path.join(BUILD, 'selftest')
    os.makedirs(BUILD, exist_ok=True)
    src = os.path.join(ROOT, 'ref', 'selftest.cpp')
    h = sha_files([src, os.path.join(ROOT, 'ref', 'refchess.h'), os.path.join(ROOT, 'gen', 'posgen.h'), os.path.join(ROOT, 'gen', 'tape.h'), os.path.join(ROOT, 'ref', 'refpolyglot.h'), os.path.join(ROOT, 'ref', 'polyglot_random.h')])
    exe = out + '-' + h
    if not os.path.exists(exe):
        r = run_cmd([GXX, '-O2', '-std=c++20', src, '-o', exe])
        if r.returncode != 0:
            log('selftest build failed:\n' + r.stdout)
            return False
    ok_marker = exe + '.ok'
    if os.path.exists(ok_marker):
        return True
    r = run_cmd([exe])
    if r.returncode != 0:
        log('ORACLE SELF-TEST FAILED:\n' + r.stdout)
        return False
    open(ok_marker, 'w').write(r.stdout)
    return True


ASAN_ENV = {
    'ASAN_OPTIONS': 'detect_leaks=0:abort_on_error=0:halt_on_error=1:print_summary=1:allocator_may_return_null=1',
    'UBSAN_OPTIONS': 'print_stacktrace=1:print_summary=1',
    'TSAN_OPTIONS': 'halt_on_error=0:second_deadlock_stack=1',
}


def load_known():
    kf = []
    p = os.path.join(ROOT, 'known_findings.jsonl')
    if os.path.exists(p):
        for line in open(p):
            line = line.strip()
            if line and not line.startswith('#'):
                kf.append(json.loads(line))
    return kf


def write_evidence(pid, tier, seed, level, coverage, assumptions, wall, violations):
    os.makedirs(os.path.join(ROOT, 'evidence'), exist_ok=True)
    if not coverage.get('samples'):
        # every shard died (or failed) before a case completed: say so instead of leaving the list empty
        coverage['samples'] = ['(no generated case completed before the run ended; see violation_replays: %s)' % ', '.join(coverage.get('violation_replays', []) or ['none'])]
    ev = dict(property_id=pid, tier=tier, seed=seed, level=level, coverage=coverage, assumptions=assumptions,
              wall_s=round(wall, 2), violations=violations)
    path = os.path.join(ROOT, 'evidence', pid + '.json')
    with open(path + '.tmp', 'w') as f:
        json.dump(ev, f, indent=1)
    os.replace(path + '.tmp', path)


def replay_once(exe, prop, path, extra_opts=(), timeout=600):
    env = dict(os.environ)
    env.update(ASAN_ENV)
    # a tape names the (sub-)property that wrote it, e.g. C10exit for C10
    try:
        m = re.match(r'# property (\S+)', open(path, errors='replace').readline())
        if m and m.group(1).startswith(prop):
            prop = m.group(1)
    except Exception:
        pass
    cmd = [exe, '--prop', prop, '--replay', path]
    for o in extra_opts:
        cmd += ['--opt', o]
    try:
        r = subprocess.run(cmd, stdout=subprocess.PIPE, stderr=subprocess.STDOUT, text=True, env=env, timeout=timeout)
        return r.returncode, r.stdout
    except subprocess.TimeoutExpired as e:
        return 124, 'timeout'


def crash_signature(output):
    """crash:<sanitizer kind>:<first frame inside /repo>"""
    kind = 'unknown'
    m = re.search(r'ERROR: AddressSanitizer: ([\w-]+)', output)
    if m:
        kind = m.group(1)
    else:
        m = re.search(r'runtime error: ([^\n]{0,80})', output)
        if m:
            kind = 'ubsan:' + re.sub(r'0x[0-9a-f]+|\d+', 'N', m.group(1)).strip().replace(' ', '_')[:60]
        else:
            m = re.search(r'ERROR: (\w+Sanitizer): ([\w-]+)', output)
            if m:
                kind = m.group(2)
    fm = re.search(r'(/[\w/.-]+/engine/[\w.]+):(\d+)', output)
    frame = (os.path.basename(fm.group(1)) + ':' + fm.group(2)) if fm else 'noframe'
    return 'crash:%s:%s' % (kind, frame)


def read_sig(path):
    sig = ''
    try:
        for line in open(path):
            if line.startswith('# signature '):
                sig = line[len('# signature '):].strip()
    except OSError:
        pass
    return sig


def strip_outputs(args):
    """shard command line without its output-file options (they are re-created for a re-run)"""
    out = []
    skip = False
    for a in args:
        if skip:
            skip = False
            continue
        if a in ('--out', '--fp', '--replay-out'):
            skip = True
            continue
        out.append(a)
    return out


def rerun_shard(exe, cmd, rundir, tag, env):
    args = strip_outputs(cmd[1:])
    rp = os.path.join(rundir, 'fail_%s.tape' % tag)
    full = [exe] + args + ['--out', os.path.join(rundir, 'rep_%s.json' % tag), '--replay-out', rp]
    r = subprocess.run(full, stdout=subprocess.PIPE, stderr=subprocess.STDOUT, text=True, env=env)
    return r.returncode, r.stdout, rp


def run_rc_property(pid, cfg, tier, seed, t0):
    """Generic runner for rapidcheck-driven (and registered exhaustive) properties."""
    tc = cfg[tier]
    flavour = tc.get('flavour', cfg.get('flavour', 'asan'))
    exe = build(flavour, cfg.get('binary', 'runner'))
    if not exe:
        return 2
    rundir = os.path.join(BUILD, 'tmp', 'run-%s-%d' % (pid, os.getpid()))
    shutil.rmtree(rundir, ignore_errors=True)
    os.makedirs(rundir)
    shards = tc.get('shards', NCPU)
    env = dict(os.environ)
    env.update(ASAN_ENV)
    procs = []
    known = [k for k in load_known() if k.get('property') == pid and k.get('status') == 'known']
    base_opts = list(tc.get('opts', []))
    # known findings are excluded by construction inside the generators (and counted)
    for k in known:
        if k.get('exclude_opt'):
            base_opts.append(k['exclude_opt'])

    def launch(i):
        out = os.path.join(rundir, 'rep%d.json' % i)
        fp = os.path.join(rundir, 'fp%d.bin' % i)
        rp = os.path.join(rundir, 'fail%d.tape' % i)
        lg = os.path.join(rundir, 'log%d.txt' % i)
        cmd = [exe, '--prop', cfg.get('prop', pid), '--tier', tier, '--seed', str(seed * 1000 + i),
               '--cases', str(max(1, int(tc['cases'] * float(os.environ.get('VERIF_CASES_MULT', '1'))))), '--max-size', str(tc.get('max_size', 100)), '--scale', str(tc.get('scale', 4)),
               '--out', out, '--fp', fp, '--replay-out', rp]
        for o in base_opts:
            cmd += ['--opt', o]
        cmd += ['--opt', 'shard=%d' % i, '--opt', 'nshards=%d' % shards, '--opt', 'zseed=%d' % (seed * 1000 + i), '--opt', 'tmpdir=%s' % rundir]
        # the last shards run with a Zobrist entropy window (see harness/bridge.h)
        zm = tc.get('zmask_shards', cfg.get('zmask_shards', []))
        if zm and i >= shards - len(zm):
            cmd += ['--opt', 'zmask=%s' % zm[i - (shards - len(zm))]]
        shard_cmds[i] = cmd
        with open(lg, 'w') as lf:
            r = subprocess.run(cmd, stdout=lf, stderr=subprocess.STDOUT, env=env)
        return i, r.returncode, out, fp, rp, lg
    shard_cmds = {}
    # seconds-long replay tier: saved shrunk tapes of every confirmed finding (corpus/regress/<id>/*.tape) run first
    regress = sorted(glob.glob(os.path.join(ROOT, 'corpus', 'regress', pid, '*.tape')))
    regress_fail = []

    def replay_reg(f):
        c, o = replay_once(exe, cfg.get('prop', pid), f, ['tmpdir=%s' % rundir])
        return f, c, o
    if regress:
        with ThreadPoolExecutor(min(len(regress), NCPU)) as ex:
            for f, c, o in ex.map(replay_reg, regress):
                if c != 0:
                    regress_fail.append((f, o))
    with ThreadPoolExecutor(min(shards, NCPU)) as ex:
        results = list(ex.map(launch, range(shards)))

    evaluations = 0
    cases = 0
    classes = {}
    samples = {}
    fps = []
    failures = []
    capped = False
    for i, rc, out, fp, rp, lg in results:
        rep = None
        if os.path.exists(out):
            try:
                rep = json.load(open(out))
            except Exception:
                rep = None
        if rep:
            evaluations += rep['evaluations']
            cases += rep['cases']
            capped |= rep.get('nontrivial_capped', False)
            for k, v in rep['classes'].items():
                classes[k] = classes.get(k, 0) + v
            for k, v in rep['samples'].items():
                samples.setdefault(k, [])
                for s in v:
                    if len(samples[k]) < 3 and s not in samples[k]:
                        samples[k].append(s)
        if os.path.exists(fp):
            fps.append(fp)
        if rc != 0:
            failures.append((i, rc, rp, lg, rep))
    distinct = 0
    if fps:
        r = run_cmd([exe, '--merge-fp'] + fps)
        try:
            distinct = int(r.stdout.strip().split()[-1])
        except Exception:
            distinct = 0

    violations = []
    known_hits = []
    unreproduced = []
    broken = []
    seen_sigs = set()
    for i, rc, rp, lg, rep in failures:
        if os.path.exists(rp):
            sg = read_sig(rp)
            if sg in seen_sigs:
                continue  # same failure signature already triaged from another shard
            seen_sigs.add(sg)
        if not os.path.exists(rp):
            broken.append('shard %d exited %d without a replay file; log tail:\n%s' % (i, rc, open(lg).read()[-3000:]))
            continue
        os.makedirs(os.path.join(ROOT, 'replays'), exist_ok=True)
        dest = os.path.join(ROOT, 'replays', '%s-%s-seed%d-shard%d.tape' % (pid, tier, seed, i))
        shutil.copy(rp, dest)
        fails = 0
        last = ''
        for _ in range(3):
            c, o = replay_once(exe, cfg.get('prop', pid), dest, base_opts)
            last = o
            if c != 0:
                fails += 1
        sig = read_sig(dest)
        if sig == 'crash':
            sig = crash_signature(last)
        if fails < 3:
            # The case passes in a fresh process: the failure may depend on state left behind by EARLIER cases of the same
            # process (a cache, a static table).  Re-run the whole shard (rapidcheck is deterministic for a seed): if it
            # fails again twice with the same signature the violation is real and the shard is the reproducible unit.
            again = 0
            seq_out = ''
            # timing-dependent signatures (a stop lost in a free-running search) recur only with some probability: several
            # re-runs, one recurrence suffices (the event itself is an observation on the real engine, not an inference)
            timing = any(sig.startswith(x) for x in cfg.get('timing_signatures', []))
            need, tries = (1, 6) if timing else (2, 2)
            for k in range(tries):
                c2, o2, rp2 = rerun_shard(exe, shard_cmds[i], rundir, 'seq%d_%d' % (i, k), env)
                if c2 != 0 and os.path.exists(rp2) and read_sig(rp2).split(':')[0] == read_sig(dest).split(':')[0]:
                    again += 1
                    seq_out = open(rp2).read()
                    if again >= need:
                        break
            if again >= need:
                dest2 = os.path.join(ROOT, 'replays', '%s-%s-seed%d-shard%d.sequence' % (pid, tier, seed, i))
                with open(dest2, 'w') as f:
                    f.write('# property %s\n# shard-replay %s\n# signature %s\n' % (pid, json.dumps(strip_outputs(shard_cmds[i][1:])), sig))
                    f.write('# the failing case passes in a fresh process but fails deterministically after the earlier cases of this shard: the result depends on process history\n')
                    f.write(seq_out)
                matched = None
                for kf in known:
                    if kf.get('signature') and re.search(kf['signature'], sig + '\n' + seq_out):
                        matched = kf
                if matched:
                    known_hits.append((matched, dest2))
                else:
                    violations.append((dest2, sig + ':depends_on_earlier_cases', seq_out))
                continue
            unreproduced.append(dict(replay=dest, reproduced=fails, signature=sig))
            continue
        matched = None
        for k in known:
            if k.get('signature') and re.search(k['signature'], sig + '\n' + last):
                matched = k
        if matched:
            known_hits.append((matched, dest))
        else:
            violations.append((dest, sig, last))

    for f, o in regress_fail:
        sig = read_sig(f)
        if sig == 'crash':
            sig = crash_signature(o)
        c2, o2 = replay_once(exe, cfg.get('prop', pid), f, ['tmpdir=%s' % rundir])
        if c2 == 0:
            continue
        matched = None
        for k in known:
            if k.get('signature') and re.search(k['signature'], sig + '\n' + o):
                matched = k
        if matched:
            known_hits.append((matched, f))
        elif sig not in [v[1] for v in violations]:
            violations.append((f, sig, o))
    # gates: generator health
    gate_fail = []
    if not violations:
        for cname, minimum in tc.get('gates', {}).items():
            if classes.get(cname, 0) < minimum:
                gate_fail.append('%s=%d < %d' % (cname, classes.get(cname, 0), minimum))
        if distinct < tc.get('min_nontrivial', 2):
            gate_fail.append('distinct_nontrivial=%d < %d' % (distinct, tc.get('min_nontrivial', 2)))

    flat_samples = []
    for k in sorted(samples):
        for s in samples[k]:
            flat_samples.append({'class': k, 'case': s})
    coverage = dict(evaluations=evaluations, distinct_nontrivial=distinct, rule=cfg['rule'], samples=flat_samples[:60],
                    generated_cases=cases, shards=shards, classes=classes, flavour=flavour,
                    exhaustive=bool(tc.get('exhaustive', False)),
                    nontrivial_count_is_lower_bound=capped,
                    unreproduced=unreproduced,
                    known_findings_confirmed=[k.get('what', '') for k, _ in known_hits],
                    excluded_by_construction=[k.get('exclude_opt') for k in known if k.get('exclude_opt')],
                    regression_tapes_replayed=len(regress))
    if violations:
        coverage['violation_replays'] = [v[0] for v in violations]
        coverage['violation_signatures'] = [v[1] for v in violations]
    write_evidence(pid, tier, seed, cfg['level'], coverage, cfg.get('assumptions', []), time.time() - t0, len(violations))
    shutil.rmtree(rundir, ignore_errors=True)

    for k, dest in known_hits:
        print('KNOWN-FINDING: property=%s %s' % (pid, k.get('what', '')))
    if violations:
        for dest, sig, last in violations:
            log('--- violation detail (%s) ---\n%s' % (sig, last[-4000:]))
            print('VIOLATION property=%s replay=%s' % (pid, os.path.relpath(dest, ROOT)))
        return 1
    if broken:
        log('CHECK BROKEN: ' + '\n'.join(broken))
        return 2
    if gate_fail:
        log('GENERATOR-HEALTH GATE FAILED for %s: %s' % (pid, '; '.join(gate_fail)))
        return 2
    print('OK property=%s tier=%s seed=%d cases=%d evaluations=%d distinct_nontrivial=%d wall=%.1fs' %
          (pid, tier, seed, cases, evaluations, distinct, time.time() - t0))
    return 0


def cmd_setup():
    if not selftest():
        return 2
    ok = True
    need = set()
    for pid, cfg in PROPS.items():
        for tier in ('quick', 'thorough'):
            if tier in cfg:
                need.add((cfg[tier].get('flavour', cfg.get('flavour', 'asan')), cfg.get('binary', 'runner')))
        if cfg.get('run_fn') == 'run_c06':
            need.add(('tsan', 'runner'))
        if cfg.get('run_fn') == 'run_c10':
            need.add(('fuzz', 'fuzz'))
            need.add(('vg', None))
        if cfg.get('run_fn') == 'run_c19':
            need.add(('fuzz', 'fuzzbook'))
    for fl, b in sorted(need, key=str):
        if b is None:
            if not build_engine_only(fl):
                ok = False
            continue
        if not build(fl, b) and not build(fl, b):  # one retry: a concurrent check may have been writing the same cache entry
            ok = False
    print('setup ' + ('OK' if ok else 'FAILED'))
    return 0 if ok else 2


def cmd_manifest():
    from props import NOT_APPLICABLE, HOOK_COMMITS
    checks = []
    for pid in sorted(PROPS):
        cfg = PROPS[pid]
        c = dict(property_id=pid, quick_cmd='./check %s --tier quick' % pid,
                 thorough_cmd='./check %s --tier thorough' % pid,
                 evidence_file='evidence/%s.json' % pid,
                 replay_cmd_template='./check %s --replay {path}' % pid,
                 engine=cfg.get('engine', 'rapidcheck'),
                 level_claimed=dict(category=cfg['level'], text=cfg['level_text'], design_ref=cfg.get('design_ref', 'DESIGN.md section 3, ' + pid)),
                 level_note=cfg['level_note'], technique=cfg['technique'])
        checks.append(c)
    m = dict(version=1, setup_cmd='./check setup',
             hooks=dict(guard='CHESSPP_VERIF', enable='-DCHESSPP_VERIF (plus -DCHESSPP_VERIF_TT_ENTRIES=4096) on every harness build of /repo/engine/*.cpp; see lib/vlib.py FLAVOURS',
                        baseline_off_cmd='cmake --build /repo/_build && ctest --test-dir /repo/_build -j8 --timeout 900',
                        source_commits=HOOK_COMMITS, add_only=True),
             engines=[dict(name='rapidcheck', path='harness/rc_driver.cpp', serves_properties=sorted(p for p in PROPS if PROPS[p].get('engine', 'rapidcheck') == 'rapidcheck'),
                           kind_free_text='property-based testing: rapidcheck generates and shrinks choice tapes (gen/tape.h) decoded by structured generators (gen/posgen.h); oracle = ref/refchess.h')],
             checks=checks,
             notes='Driver: ./check (python3, lib/vlib.py, lib/props.py). VERIF_SEED seeds rapidcheck (shard i uses seed*1000+i). exit 2 = check could not do its job (never a violation).',
             not_applicable=NOT_APPLICABLE)
    with open(os.path.join(ROOT, 'MANIFEST.json'), 'w') as f:
        json.dump(m, f, indent=1)
    print('MANIFEST.json written: %d checks, %d not_applicable' % (len(checks), len(NOT_APPLICABLE)))
    return 0


def main(argv):
    if not argv:
        print(__doc__ if __doc__ else 'usage: check setup | Cxx [--tier T] [--replay F]')
        return 2
    os.makedirs(BUILD, exist_ok=True)
    if argv[0] == 'setup':
        return cmd_setup()
    if argv[0] == 'manifest':
        return cmd_manifest()
    pid = argv[0]
    if pid not in PROPS:
        log('unknown property ' + pid)
        return 2
    tier = os.environ.get('VERIF_TIER', 'quick')
    replay = None
    i = 1
    while i < len(argv):
        if argv[i] == '--tier':
            tier = argv[i + 1]
            i += 2
        elif argv[i] == '--replay':
            replay = argv[i + 1]
            i += 2
        else:
            i += 1
    seed = int(os.environ.get('VERIF_SEED', '1') or 1)
    if seed == 0:
        seed = 1
    cfg = PROPS[pid]
    if not selftest():
        return 2
    t0 = time.time()
    if replay:
        runner = cfg.get('replay_fn')
        if runner:
            if isinstance(runner, str):
                runner = globals()[runner]
            return runner(pid, cfg, replay)
        flavour = cfg.get('quick', {}).get('flavour', cfg.get('flavour', 'asan'))
        exe = build(flavour, cfg.get('binary', 'runner'))
        if not exe:
            return 2
        known = [k for k in load_known() if k.get('property') == pid and k.get('status') == 'known']
        m = re.search(r'^# shard-replay (.*)$', open(replay, errors='replace').read(), re.M)
        if m:
            rundir = os.path.join(BUILD, 'tmp', 'seq-replay-%d' % os.getpid())
            os.makedirs(rundir, exist_ok=True)
            env = dict(os.environ)
            env.update(ASAN_ENV)
            args = [a if not a.startswith('tmpdir=') else 'tmpdir=' + rundir for a in json.loads(m.group(1))]
            c, o, rp2 = rerun_shard(exe, [exe] + args, rundir, 'r', env)
            if os.path.exists(rp2):
                o += open(rp2).read()
            shutil.rmtree(rundir, ignore_errors=True)
        else:
            c, o = replay_once(exe, cfg.get('prop', pid), replay)
        print(o[-6000:])
        if c != 0:
            sig = read_sig(replay)
            for k in known:
                if k.get('signature') and re.search(k['signature'], sig + '\n' + o):
                    print('KNOWN-FINDING: property=%s %s' % (pid, k.get('what', '')))
                    return 0
            print('VIOLATION property=%s replay=%s' % (pid, replay))
            return 1
        return 0
    if tier not in cfg:
        tier = 'quick'
    fn = cfg.get('run_fn', run_rc_property)
    if isinstance(fn, str):
        fn = globals()[fn]
    return fn(pid, cfg, tier, seed, t0)


# ---------------------------------------------------------------------------------------------
# C06: deterministic schedule half (asan runner, prop C06) + ThreadSanitizer race half (tsan runner, prop C06race)
# ---------------------------------------------------------------------------------------------
RACE_PAT = re.compile(r'Search::stop\b|stop_command|stop_search')


def tsan_blocks(text):
    """split ThreadSanitizer output into report blocks"""
    blocks = []
    cur = None
    for line in text.splitlines():
        if 'WARNING: ThreadSanitizer' in line:
            if cur:
                blocks.append('\n'.join(cur))
            cur = [line]
        elif cur is not None:
            cur.append(line)
            if line.startswith('SUMMARY: ThreadSanitizer'):
                blocks.append('\n'.join(cur))
                cur = None
    if cur:
        blocks.append('\n'.join(cur))
    return blocks


def run_race_shard(exe, seed, cases, rundir, tag):
    env = dict(os.environ)
    env['TSAN_OPTIONS'] = 'halt_on_error=0:exitcode=0:report_signal_unsafe=0:history_size=4'
    out = os.path.join(rundir, 'race-%s.json' % tag)
    fp = os.path.join(rundir, 'race-%s.fp' % tag)
    lg = os.path.join(rundir, 'race-%s.log' % tag)
    cmd = [exe, '--prop', 'C06race', '--tier', 'quick', '--seed', str(seed), '--cases', str(cases), '--max-size', '100', '--scale', '3',
           '--out', out, '--fp', fp, '--opt', 'zseed=1']
    with open(lg, 'w') as lf:
        r = subprocess.run(cmd, stdout=lf, stderr=subprocess.STDOUT, env=env, timeout=3600)
    text = open(lg, errors='replace').read()
    rep = json.load(open(out)) if os.path.exists(out) else None
    return r.returncode, text, rep, fp


def race_signature(block):
    frames = re.findall(r'#\d+ (\S+).*?(/repo/engine/[\w.]+):(\d+)', block)
    locs = sorted(set('%s:%s' % (os.path.basename(f), l) for _, f, l in frames))
    return 'race:stop_flag:' + ','.join(locs[:4])


def run_c06(pid, cfg, tier, seed, t0):
    # deterministic half through the generic runner (writes evidence); then the race half is merged into it
    rc = run_rc_property(pid, cfg, tier, seed, t0)
    ev_path = os.path.join(ROOT, 'evidence', pid + '.json')
    if rc == 2 and not os.path.exists(ev_path):
        return rc
    tc = cfg[tier]
    exe = build('tsan', 'runner')
    if not exe:
        return 2
    rundir = os.path.join(BUILD, 'tmp', 'race-%s-%d' % (pid, os.getpid()))
    shutil.rmtree(rundir, ignore_errors=True)
    os.makedirs(rundir)
    nsh = tc.get('race_shards', 4)
    ncase = tc.get('race_cases', 5)
    with ThreadPoolExecutor(nsh) as ex:
        res = list(ex.map(lambda i: (i,) + run_race_shard(exe, seed * 1000 + i, ncase, rundir, str(i)), range(nsh)))
    sessions = 0
    relevant = []
    other = {}
    race_classes = {}
    for i, code, text, rep, fp in res:
        if rep:
            sessions += rep['evaluations']
            for k, v in rep['classes'].items():
                if k.startswith('c06race'):
                    race_classes[k] = race_classes.get(k, 0) + v
        for b in tsan_blocks(text):
            if RACE_PAT.search(b):
                relevant.append((i, b))
            else:
                s = re.search(r'SUMMARY: ThreadSanitizer: ([^\n]*)', b)
                key = s.group(1)[:160] if s else 'unclassified'
                other[key] = other.get(key, 0) + 1
    ev = json.load(open(ev_path))
    cov = ev['coverage']
    cov['race_half'] = dict(flavour='tsan', sessions=sessions, shards=nsh, classes=race_classes,
                            stop_flag_race_reports=len(relevant), other_tsan_reports=other,
                            rule='free-running in-process UCI sessions (go infinite / movetime + stop after k visits counted with a relaxed atomic); oracle = zero ThreadSanitizer reports whose stacks touch Search::stop / stop_command')
    known = [k for k in load_known() if k.get('property') == pid and k.get('status') == 'known']
    viol = []
    if relevant:
        i, b = relevant[0]
        os.makedirs(os.path.join(ROOT, 'replays'), exist_ok=True)
        dest = os.path.join(ROOT, 'replays', '%s-%s-seed%d-race-shard%d.tape' % (pid, tier, seed, i))
        with open(dest, 'w') as f:
            f.write('# property C06\n# race-shard seed=%d cases=%d\n# signature %s\n' % (seed * 1000 + i, ncase, race_signature(b)))
            for line in b.splitlines():
                f.write('# failure ' + line + '\n')
        # confirm 3x in fresh processes
        ok = 0
        for _ in range(3):
            code, text, rep, fp = run_race_shard(exe, seed * 1000 + i, ncase, rundir, 'replay')
            if any(RACE_PAT.search(x) for x in tsan_blocks(text)):
                ok += 1
        if ok == 3:
            sig = race_signature(b)
            matched = [k for k in known if k.get('signature') and re.search(k['signature'], sig + '\n' + b)]
            if matched:
                print('KNOWN-FINDING: property=%s %s' % (pid, matched[0].get('what', '')))
            else:
                viol.append((dest, sig, b))
        else:
            cov.setdefault('unreproduced', []).append(dict(replay=dest, reproduced=ok))
    if viol:
        ev['violations'] = ev.get('violations', 0) + len(viol)
        cov.setdefault('violation_replays', []).extend(v[0] for v in viol)
    ev['wall_s'] = round(time.time() - t0, 2)
    json.dump(ev, open(ev_path, 'w'), indent=1)
    shutil.rmtree(rundir, ignore_errors=True)
    if viol:
        for dest, sig, b in viol:
            log('--- ThreadSanitizer report touching the stop flag ---\n' + b[:3000])
            print('VIOLATION property=%s replay=%s' % (pid, os.path.relpath(dest, ROOT)))
        return 1
    if rc == 0:
        if sessions < tc.get('race_min_sessions', 5):
            log('GENERATOR-HEALTH GATE FAILED for C06 race half: only %d sessions' % sessions)
            return 2
        print('OK property=%s race-half sessions=%d stop_flag_reports=0 other_tsan_reports=%d' % (pid, sessions, sum(other.values())))
    return rc


def replay_c06(pid, cfg, path):
    txt = open(path).read()
    m = re.search(r'# race-shard seed=(\d+) cases=(\d+)', txt)
    if not m:
        exe = build('asan', 'runner')
        if not exe:
            return 2
        c, o = replay_once(exe, 'C06', path)
        print(o)
        if c != 0:
            print('VIOLATION property=%s replay=%s' % (pid, path))
            return 1
        return 0
    exe = build('tsan', 'runner')
    if not exe:
        return 2
    rundir = os.path.join(BUILD, 'tmp', 'race-replay-%d' % os.getpid())
    os.makedirs(rundir, exist_ok=True)
    code, text, rep, fp = run_race_shard(exe, int(m.group(1)), int(m.group(2)), rundir, 'r')
    shutil.rmtree(rundir, ignore_errors=True)
    rel = [b for b in tsan_blocks(text) if RACE_PAT.search(b)]
    if rel:
        print(rel[0][:3000])
        print('VIOLATION property=%s replay=%s' % (pid, path))
        return 1
    print('REPLAY-PASS property=%s (no ThreadSanitizer report touching the stop flag)' % pid)
    return 0


# ---------------------------------------------------------------------------------------------
# C10: rapidcheck sessions (generic runner) + libFuzzer campaign over the same tape decoder
# ---------------------------------------------------------------------------------------------
def fuzz_env(rundir, stats=None, opts=''):
    env = dict(os.environ)
    env.update(ASAN_ENV)
    env['VERIF_TMPDIR'] = rundir
    if stats:
        env['VERIF_FUZZ_STATS'] = stats
    if opts:
        env['VERIF_FUZZ_OPTS'] = opts
    return env


def build_real_engine(flavour='asan'):
    """the engine's own main() linked with the sanitizer-instrumented engine objects"""
    fl = FLAVOURS[flavour]
    flags = COMMON + fl['flags']
    eh = sha_files(engine_all_files(), ' '.join([fl['cxx']] + flags))
    edir = os.path.join(BUILD, 'eng-%s-%s' % (flavour, eh))
    exe = os.path.join(edir, 'chessplusplus-' + flavour)
    if os.path.exists(exe):
        return exe
    if not build(flavour, 'runner'):
        return None
    objs = [os.path.join(edir, os.path.basename(s)[:-4] + '.o') for s in engine_sources()]
    mo = os.path.join(edir, 'main.o')
    r = run_cmd([fl['cxx']] + flags + ['-c', os.path.join(REPO, 'engine', 'main.cpp'), '-o', mo])
    if r.returncode:
        log('main.cpp build failed:\n' + r.stdout[-3000:])
        return None
    r = run_cmd([fl['cxx'], mo] + objs + ['-fsanitize=address,undefined', '-pthread', '-o', exe])
    if r.returncode:
        log('engine link failed:\n' + r.stdout[-3000:])
        return None
    return exe


def build_engine_only(flavour):
    """engine objects + engine/main.cpp for a flavour, without any harness code"""
    fl = FLAVOURS[flavour]
    flags = COMMON + fl['flags']
    eh = sha_files(engine_all_files(), ' '.join([fl['cxx']] + flags))
    edir = os.path.join(BUILD, 'eng-%s-%s' % (flavour, eh))
    exe = os.path.join(edir, 'chessplusplus-' + flavour)
    if os.path.exists(exe):
        os.utime(edir)
        return exe
    os.makedirs(edir, exist_ok=True)
    t0 = time.time()
    jobs, objs = [], []
    for src in engine_sources() + [os.path.join(REPO, 'engine', 'main.cpp')]:
        o = os.path.join(edir, os.path.basename(src)[:-4] + '.o')
        objs.append(o)
        jobs.append(([fl['cxx']] + flags + ['-c', src, '-o', o], o))
    errs = compile_many(jobs)
    if errs:
        log('BUILD FAILED (%s engine):\n%s' % (flavour, '\n'.join(errs)))
        return None
    tmpexe = exe + '.tmp%d' % os.getpid()
    r = run_cmd([fl['cxx']] + objs + fl['link'] + ['-pthread', '-o', tmpexe])
    if r.returncode:
        log('engine link failed:\n' + r.stdout[-3000:])
        return None
    os.replace(tmpexe, exe)
    log('[build] %s/engine built in %.1fs' % (flavour, time.time() - t0))
    prune('eng-%s' % flavour, 2)
    return exe


VG_ERR = re.compile(r'uninitialised|Invalid (read|write|free)|Mismatched free|Source and destination overlap|Process terminating with')


def drive_script(exe, script, logpath, wait_s=90, deadline_s=900):
    """feed a recorded UCI script (harness/session.h record mode) to `exe` under valgrind memcheck.  Returns a dict with
    valgrind's report (or ''), counts, and whether a wait timed out (inconclusive)"""
    import threading, queue
    cmd = ['valgrind', '-q', '--vgdb=no', '--error-exitcode=97', '--read-var-info=no', '--track-origins=yes', '--log-file=' + logpath, exe]
    p = subprocess.Popen(cmd, stdin=subprocess.PIPE, stdout=subprocess.PIPE, stderr=subprocess.STDOUT, text=True, bufsize=1)
    q = queue.Queue()

    def reader():
        for line in p.stdout:
            q.put(line.rstrip('\n'))
        q.put(None)
    th = threading.Thread(target=reader, daemon=True)
    th.start()

    def wait_for(prefix, secs):
        end = time.time() + secs
        while True:
            try:
                line = q.get(timeout=max(0.1, end - time.time()))
            except queue.Empty:
                return False
            if line is None:
                return False
            if line.startswith(prefix):
                return True
            if time.time() > end:
                return False
    sent = gos = timeouts = 0
    dead = False
    t_start = time.time()
    try:
        for line in open(script):
            line = line.rstrip('\n')
            if not line or line == '@session':
                continue
            if time.time() - t_start > deadline_s:
                timeouts += 1
                break
            if p.poll() is not None:
                dead = True
                break
            if line.startswith('@wait '):
                what = line[6:]
                if not wait_for(what, wait_s):
                    if p.poll() is not None:
                        dead = True
                        break
                    timeouts += 1
                    if what == 'bestmove':
                        p.stdin.write('stop\n')
                        p.stdin.flush()
                        if not wait_for(what, 30):
                            break
                    else:
                        break
                continue
            sent += 1
            gos += line.startswith('go')
            p.stdin.write(line + '\n')
            p.stdin.flush()
        if p.poll() is None:
            p.stdin.write('quit\n')
            p.stdin.flush()
        try:
            p.wait(timeout=60)
        except subprocess.TimeoutExpired:
            p.kill()
            timeouts += 1
    except (BrokenPipeError, OSError):
        dead = True
    rc = p.poll()
    if rc is None:
        p.kill()
        rc = -9
    rep = ''
    try:
        rep = open(logpath, errors='replace').read()
    except Exception:
        pass
    bad = rc == 97 or bool(VG_ERR.search(rep)) or (dead and rc not in (0, None)) or (rc not in (0, 97, -9) and rc is not None)
    return dict(report=rep, rc=rc, commands=sent, gos=gos, timeouts=timeouts, violation=bad)


def vg_signature(rep):
    m = re.search(r'==\d+== ((?:Conditional jump|Use of uninitialised|Invalid|Syscall param|Mismatched|Source and destination|Process terminating)[^\n]*)', rep)
    kind = re.sub(r'\d+', 'N', m.group(1)).strip().replace(' ', '_')[:70] if m else 'exit'
    f = re.search(r'\(([\w.]+\.(?:cpp|h)):(\d+)\)', rep)
    return 'valgrind:%s:%s' % (kind, (f.group(1) + ':' + f.group(2)) if f else 'noframe')


def valgrind_half(pid, cfg, tier, seed):
    """recorded sessions -> real executable under valgrind memcheck.  Returns (rc, coverage dict, violations)"""
    tc = cfg[tier].get('valgrind')
    if not tc:
        return 0, None, []
    exe = build_engine_only('vg')
    runner = build('fast', 'runner')
    if not exe or not runner:
        return 2, None, []
    rundir = os.path.join(BUILD, 'tmp', 'vg-%s-%d' % (pid, os.getpid()))
    shutil.rmtree(rundir, ignore_errors=True)
    os.makedirs(rundir)
    nsh = tc.get('shards', 16)

    def shard(i):
        script = os.path.join(rundir, 'script%d.txt' % i)
        rep = os.path.join(rundir, 'rep%d.json' % i)
        cmd = [runner, '--prop', 'C10script', '--tier', tier, '--seed', str(seed * 1000 + 500 + i), '--cases', str(tc['sessions']), '--max-size', '100', '--scale', str(tc.get('scale', 3)),
               '--out', rep, '--fp', os.path.join(rundir, 'fp%d.bin' % i), '--replay-out', os.path.join(rundir, 'fail%d.tape' % i),
               '--opt', 'scriptfile=' + script, '--opt', 'tmpdir=' + rundir, '--opt', 'max_game_plies=900']
        r = subprocess.run(cmd, stdout=subprocess.PIPE, stderr=subprocess.STDOUT, text=True)
        if r.returncode != 0 or not os.path.exists(script):
            return i, None, None, r.stdout[-2000:]
        res = drive_script(exe, script, os.path.join(rundir, 'vg%d.log' % i))
        try:
            rj = json.load(open(rep))
        except Exception:
            rj = None
        return i, res, rj, ''
    with ThreadPoolExecutor(min(nsh, NCPU)) as ex:
        results = list(ex.map(shard, range(nsh)))
    classes, sessions, commands, gos, timeouts = {}, 0, 0, 0, 0
    samples, viol = [], []
    os.makedirs(os.path.join(ROOT, 'replays'), exist_ok=True)
    for i, res, rj, err in results:
        if res is None:
            log('valgrind half: script generation failed in shard %d:\n%s' % (i, err))
            return 2, None, []
        commands += res['commands']
        gos += res['gos']
        timeouts += res['timeouts']
        if rj:
            sessions += rj.get('evaluations', 0)
            for k, v in rj.get('classes', {}).items():
                if k.startswith('script:'):
                    classes[k] = classes.get(k, 0) + v
            for k, v in rj.get('samples', {}).items():
                samples += v[:1]
        if res['violation']:
            script = os.path.join(rundir, 'script%d.txt' % i)
            dest = os.path.join(ROOT, 'replays', '%s-%s-seed%d-valgrind-shard%d.script' % (pid, tier, seed, i))
            shutil.copy(script, dest)
            # books referenced by the script live in rundir: keep them next to the replay
            keep = os.path.join(ROOT, 'replays', 'books')
            os.makedirs(keep, exist_ok=True)
            txt = open(dest).read()
            for b in set(re.findall(r'(%s/verif-sess-book-[\w-]+\.bin)' % re.escape(rundir), txt)):
                if os.path.exists(b):
                    shutil.copy(b, keep)
                    txt = txt.replace(b, os.path.join(keep, os.path.basename(b)))
            open(dest, 'w').write(txt)
            # 3x replay
            ok = 0
            last = res
            for k in range(3):
                r2 = drive_script(exe, dest, os.path.join(rundir, 'vgreplay%d_%d.log' % (i, k)))
                if r2['violation']:
                    ok += 1
                    last = r2
            if ok == 3:
                viol.append((dest, vg_signature(last['report']), last['report']))
            else:
                timeouts += 1
    cov = dict(flavour='vg (g++ -O1 -g, engine/main.cpp, no harness code) under valgrind memcheck --track-origins=yes', shards=nsh, sessions=sessions, commands=commands, go_commands=gos,
               waits_timed_out=timeouts, classes=classes, samples=samples[:6],
               rule='sessions from harness/session.h in record mode (depth <= 3, nodes <= 3000, short time limits, infinite + stop) are fed to the real executable under valgrind; any memcheck error (use of an uninitialised value, invalid access) or abnormal exit that reproduces 3x is a violation; a wait that times out is inconclusive')
    shutil.rmtree(rundir, ignore_errors=True)
    return (1 if viol else 0), cov, viol


def fuzz_campaign(pid, exe, tc, seed, corpus, max_len, tag):
    """libFuzzer jobs (one process each) from a copy of `corpus`; returns (execs, classes, [(artifact copied to replays/, signature, output)], unreproduced)"""
    jobs = tc['fuzz_jobs']
    rundir = os.path.join(BUILD, 'tmp', 'fuzz-%s-%d' % (pid, os.getpid()))
    shutil.rmtree(rundir, ignore_errors=True)
    os.makedirs(rundir)
    seeds = sorted(glob.glob(os.path.join(corpus, '*')))

    def job(i):
        cdir = os.path.join(rundir, 'corpus%d' % i)
        adir = os.path.join(rundir, 'art%d' % i)
        os.makedirs(cdir)
        os.makedirs(adir)
        if i % 2 == 0:  # half of the jobs start from the seed corpus, the other half from an empty one
            for sd in seeds:
                shutil.copy(sd, cdir)
        stats = os.path.join(rundir, 'stats%d.json' % i)
        lg = os.path.join(rundir, 'fuzz%d.log' % i)
        cmd = [exe, cdir, '-runs=%d' % tc['fuzz_runs'], '-seed=%d' % (seed * 1000 + i + 1), '-max_len=%d' % max_len, '-timeout=600', '-rss_limit_mb=6000',
               '-artifact_prefix=' + adir + '/', '-print_final_stats=1', '-verbosity=0']
        with open(lg, 'w') as lf:
            r = subprocess.run(cmd, stdout=lf, stderr=subprocess.STDOUT, env=fuzz_env(rundir, stats))
        st = None
        try:
            st = json.load(open(stats))
        except Exception:
            pass
        arts = [a for a in glob.glob(os.path.join(adir, '*')) if os.path.basename(a).startswith(('crash-', 'leak-'))]
        return i, r.returncode, st, arts, lg
    with ThreadPoolExecutor(min(jobs, NCPU)) as ex:
        res = list(ex.map(job, range(jobs)))
    execs, classes, viol, unrepro, seen = 0, {}, [], [], set()
    os.makedirs(os.path.join(ROOT, 'replays'), exist_ok=True)
    for i, code, st, arts, lg in res:
        if st:
            execs += st.get('execs', 0)
            for k, v in st.get('classes', {}).items():
                classes[k] = classes.get(k, 0) + v
        for a in arts:
            dest = os.path.join(ROOT, 'replays', '%s-%s-%s' % (pid, tag, os.path.basename(a)))
            shutil.copy(a, dest)
            fails, last = 0, ''
            for _ in range(3):
                r = subprocess.run([exe, dest], stdout=subprocess.PIPE, stderr=subprocess.STDOUT, text=True, errors='replace', env=fuzz_env(rundir), timeout=1200)
                last = r.stdout
                fails += r.returncode != 0
            m = re.search(r'C19 fuzz: (book:[\w]+)', last)
            sig = m.group(1) if m else crash_signature(last)
            if fails < 3:
                unrepro.append(dict(replay=dest, reproduced=fails, signature=sig))
            elif sig not in seen:
                seen.add(sig)
                viol.append((dest, sig, last))
    shutil.rmtree(rundir, ignore_errors=True)
    return execs, classes, viol, unrepro


def run_c19(pid, cfg, tier, seed, t0):
    rc = run_rc_property(pid, cfg, tier, seed, t0)
    ev_path = os.path.join(ROOT, 'evidence', pid + '.json')
    tc = cfg[tier]
    if rc != 0 or not os.path.exists(ev_path) or not tc.get('fuzz_jobs'):
        return rc
    exe = build('fuzz', 'fuzzbook')
    if not exe:
        return 2
    execs, classes, viol, unrepro = fuzz_campaign(pid, exe, tc, seed, os.path.join(ROOT, 'corpus', 'c19'), 4096, tier)
    known = [k for k in load_known() if k.get('property') == pid and k.get('status') == 'known']
    fresh = []
    for dest, sig, out in viol:
        matched = [k for k in known if k.get('signature') and re.search(k['signature'], sig + '\n' + out)]
        if matched:
            print('KNOWN-FINDING: property=%s %s' % (pid, matched[0].get('what', '')))
        else:
            fresh.append((dest, sig, out))
    ev = json.load(open(ev_path))
    cov = ev['coverage']
    cov['libfuzzer_half'] = dict(flavour='fuzz', target='harness/fuzz_book.cpp', jobs=tc['fuzz_jobs'], runs_per_job=tc['fuzz_runs'], executions=execs, classes=classes, unreproduced=unrepro,
                                 rule='coverage-guided mutation of book files (records kept raw or pinned to a pooled position and one of its legal moves, truncated tails); oracles inside the target: loaded records == complete records of the file, contains(), best = a maximal-weight record, random = a positive-weight record; half of the jobs start from corpus/c19, half from an empty corpus; only crash artifacts that reproduce 3x count')
    cov['evaluations'] = cov['evaluations'] + execs
    if fresh:
        ev['violations'] = len(fresh)
        cov['violation_replays'] = [f[0] for f in fresh]
    ev['wall_s'] = round(time.time() - t0, 2)
    json.dump(ev, open(ev_path, 'w'), indent=1)
    if fresh:
        for dest, sig, out in fresh:
            log('--- libFuzzer artifact (%s) ---\n%s' % (sig, out[-3000:]))
            print('VIOLATION property=%s replay=%s' % (pid, os.path.relpath(dest, ROOT)))
        return 1
    if execs < tc['fuzz_jobs'] * tc['fuzz_runs'] * 0.5:
        log('GENERATOR-HEALTH GATE FAILED for %s libFuzzer half: %d executions of %d planned' % (pid, execs, tc['fuzz_jobs'] * tc['fuzz_runs']))
        return 2
    print('OK property=%s libfuzzer-half executions=%d pinned_lookups=%d' % (pid, execs, classes.get('book:pinned_lookups', 0)))
    return 0


def replay_c19(pid, cfg, path):
    head = open(path, 'rb').read(16)
    if head.startswith(b'# property'):
        exe = build('asan', 'runner')
        if not exe:
            return 2
        c, o = replay_once(exe, 'C19', path)
    else:
        exe = build('fuzz', 'fuzzbook')
        if not exe:
            return 2
        rundir = os.path.join(BUILD, 'tmp', 'fuzz-replay-%d' % os.getpid())
        os.makedirs(rundir, exist_ok=True)
        r = subprocess.run([exe, path], stdout=subprocess.PIPE, stderr=subprocess.STDOUT, text=True, errors='replace', env=fuzz_env(rundir), timeout=1200)
        shutil.rmtree(rundir, ignore_errors=True)
        c, o = r.returncode, r.stdout
    print(o[-4000:])
    if c != 0:
        print('VIOLATION property=%s replay=%s' % (pid, path))
        return 1
    return 0


STARTUP_SESSIONS = [
    'uci\nisready\nquit\n',
    'uci\nsetoption name Polyglot Sample value best\nsetoption name Polyglot Book value /nonexistent\nisready\nucinewgame\nposition startpos moves e2e4 e7e5\nprintboard\nhash\nstaticeval\nperft 2\nquit\n',
    'isready\nposition fen r3k2r/p1ppqpb1/bn2pnp1/3PN3/1p2P3/2N2Q1p/PPPBBPPP/R3K2R w KQkq - 0 1 moves e1g1\nperft 1\nstaticeval\nuci\nquit\n',
]


def startup_probe(pid):
    """the real executable (engine/main.cpp) under ASan/UBSan on scripted sessions without searches: start-up, option
    handling and the non-search commands.  Returns (ok, output)"""
    exe = build_real_engine('asan')
    if not exe:
        return None, 'build failed'
    env = dict(os.environ)
    env.update(ASAN_ENV)
    for sess in STARTUP_SESSIONS:
        r = subprocess.run([exe], input=sess, stdout=subprocess.PIPE, stderr=subprocess.STDOUT, text=True, env=env, timeout=600)
        if r.returncode != 0 or 'runtime error' in r.stdout or 'ERROR: AddressSanitizer' in r.stdout:
            return False, 'session: %r\n%s' % (sess, r.stdout[-3000:])
    return True, ''


def run_c10(pid, cfg, tier, seed, t0):
    ok, out = startup_probe(pid)
    if ok is None:
        return 2
    if not ok:
        os.makedirs(os.path.join(ROOT, 'replays'), exist_ok=True)
        dest = os.path.join(ROOT, 'replays', '%s-%s-startup-probe.txt' % (pid, tier))
        open(dest, 'w').write('# property C10\n# startup-probe\n' + out)
        sig = crash_signature(out)
        known = [k for k in load_known() if k.get('property') == pid and k.get('status') == 'known']
        matched = [k for k in known if k.get('signature') and re.search(k['signature'], sig + '\n' + out)]
        if matched:
            print('KNOWN-FINDING: property=%s %s' % (pid, matched[0].get('what', '')))
        else:
            write_evidence(pid, tier, seed, cfg['level'], dict(evaluations=len(STARTUP_SESSIONS), distinct_nontrivial=len(STARTUP_SESSIONS), rule=cfg['rule'],
                                                                 samples=[s for s in STARTUP_SESSIONS], violation_replays=[dest]), cfg.get('assumptions', []), time.time() - t0, 1)
            log('--- start-up probe of the real executable (%s) ---\n%s' % (sig, out))
            print('VIOLATION property=%s replay=%s' % (pid, os.path.relpath(dest, ROOT)))
            return 1
    ev_path = os.path.join(ROOT, 'evidence', pid + '.json')
    # exit half: sessions that end (quit / end of input) while the search thread is parked at a generated schedule point
    xcfg = dict(cfg)
    xcfg['prop'] = 'C10exit'
    xcfg['rule'] = cfg['exit_rule']
    xcfg[tier] = dict(cfg[tier]['exit'])
    rc = run_rc_property(pid, xcfg, tier, seed, t0)
    if rc != 0 or not os.path.exists(ev_path):
        return rc
    exit_cov = json.load(open(ev_path))['coverage']
    exit_half = dict(prop='C10exit', rule=cfg['exit_rule'], evaluations=exit_cov.get('evaluations'), distinct_nontrivial=exit_cov.get('distinct_nontrivial'),
                     generated_cases=exit_cov.get('generated_cases'), classes=exit_cov.get('classes'), samples=exit_cov.get('samples'))
    rc = run_rc_property(pid, cfg, tier, seed, t0)
    if rc != 0 or not os.path.exists(ev_path):
        return rc
    vrc, vcov, vviol = valgrind_half(pid, cfg, tier, seed)
    if vrc == 2:
        return 2
    if vviol:
        known = [k for k in load_known() if k.get('property') == pid and k.get('status') == 'known']
        fresh = []
        for dest, sig, rep_ in vviol:
            matched = [k for k in known if k.get('signature') and re.search(k['signature'], sig + '\n' + rep_)]
            if matched:
                print('KNOWN-FINDING: property=%s %s' % (pid, matched[0].get('what', '')))
            else:
                fresh.append((dest, sig, rep_))
        if fresh:
            ev0 = json.load(open(ev_path))
            ev0['violations'] = len(fresh)
            ev0['coverage']['valgrind_half'] = vcov
            ev0['coverage']['violation_replays'] = [f[0] for f in fresh]
            json.dump(ev0, open(ev_path, 'w'), indent=1)
            for dest, sig, rep_ in fresh:
                log('--- violation detail (%s) ---\n%s' % (sig, rep_[-3500:]))
                print('VIOLATION property=%s replay=%s' % (pid, os.path.relpath(dest, ROOT)))
            return 1
    if vcov:
        print('OK property=%s valgrind-half sessions=%d commands=%d go=%d timeouts=%d' % (pid, vcov['sessions'], vcov['commands'], vcov['go_commands'], vcov['waits_timed_out']))
    try:
        ev0 = json.load(open(ev_path))
        ev0['coverage']['exit_half'] = exit_half
        if vcov:
            ev0['coverage']['valgrind_half'] = vcov
        ev0['coverage']['startup_probe'] = dict(sessions=len(STARTUP_SESSIONS), rule='engine/main.cpp linked with the ASan/UBSan engine objects, scripted sessions without searches over stdin; any sanitizer report or non-zero exit is a violation')
        json.dump(ev0, open(ev_path, 'w'), indent=1)
    except Exception:
        pass
    tc = cfg[tier]
    jobs = tc.get('fuzz_jobs', 0)
    if not jobs:
        return rc
    exe = build('fuzz', 'fuzz')
    if not exe:
        return 2
    rundir = os.path.join(BUILD, 'tmp', 'fuzz-%s-%d' % (pid, os.getpid()))
    shutil.rmtree(rundir, ignore_errors=True)
    os.makedirs(rundir)
    known = [k for k in load_known() if k.get('property') == pid and k.get('status') == 'known']
    fopts = ','.join(k['exclude_opt'] for k in known if k.get('exclude_opt'))
    seeds = sorted(glob.glob(os.path.join(ROOT, 'corpus', 'c10', '*')))

    def job(i):
        cdir = os.path.join(rundir, 'corpus%d' % i)
        adir = os.path.join(rundir, 'art%d' % i)
        os.makedirs(cdir)
        os.makedirs(adir)
        for s in seeds:
            shutil.copy(s, cdir)
        stats = os.path.join(rundir, 'stats%d.json' % i)
        lg = os.path.join(rundir, 'fuzz%d.log' % i)
        s = seed * 1000 + i + 1
        cmd = [exe, cdir, '-runs=%d' % tc['fuzz_runs'], '-seed=%d' % s, '-max_len=16384', '-len_control=20', '-timeout=600', '-rss_limit_mb=6000',
               '-artifact_prefix=' + adir + '/', '-print_final_stats=1', '-verbosity=0']
        with open(lg, 'w') as lf:
            r = subprocess.run(cmd, stdout=lf, stderr=subprocess.STDOUT, env=fuzz_env(rundir, stats, fopts))
        st = None
        try:
            st = json.load(open(stats))
        except Exception:
            pass
        arts = [a for a in glob.glob(os.path.join(adir, '*')) if os.path.basename(a).startswith(('crash-', 'leak-'))]
        return i, r.returncode, st, arts, lg
    with ThreadPoolExecutor(min(jobs, NCPU)) as ex:
        res = list(ex.map(job, range(jobs)))
    execs = 0
    boundary = 0
    classes = {}
    viol = []
    unrepro = []
    seen = set()
    for i, code, st, arts, lg in res:
        if st:
            execs += st['execs']
            boundary += st['boundary_sessions']
            for k, v in st['classes'].items():
                classes[k] = classes.get(k, 0) + v
        for a in arts:
            os.makedirs(os.path.join(ROOT, 'replays'), exist_ok=True)
            dest = os.path.join(ROOT, 'replays', '%s-%s-seed%d-fuzz%d-%s' % (pid, tier, seed, i, os.path.basename(a)[:24]))
            shutil.copy(a, dest)
            fails = 0
            last = ''
            for _ in range(3):
                r = subprocess.run([exe, dest], stdout=subprocess.PIPE, stderr=subprocess.STDOUT, text=True, env=fuzz_env(rundir, None, fopts), timeout=1200)
                last = r.stdout
                if r.returncode != 0:
                    fails += 1
            sig = crash_signature(last)
            if fails < 3:
                unrepro.append(dict(replay=dest, reproduced=fails, signature=sig))
                continue
            if sig in seen:
                continue
            seen.add(sig)
            matched = [k for k in known if k.get('signature') and re.search(k['signature'], sig + '\n' + last)]
            if matched:
                print('KNOWN-FINDING: property=%s %s' % (pid, matched[0].get('what', '')))
            else:
                viol.append((dest, sig, last))
    ev = json.load(open(ev_path))
    cov = ev['coverage']
    cov['libfuzzer_half'] = dict(flavour='fuzz', jobs=jobs, runs_per_job=tc['fuzz_runs'], executions=execs, boundary_sessions=boundary, classes=classes,
                                 unreproduced=unrepro, rule='coverage-guided mutation of the tape bytes decoded by harness/session.h; only crash-/leak- artifacts that reproduce 3x in a fresh process count')
    cov['evaluations'] = cov['evaluations'] + execs
    if viol:
        ev['violations'] = len(viol)
        cov['violation_replays'] = [v[0] for v in viol]
    ev['wall_s'] = round(time.time() - t0, 2)
    json.dump(ev, open(ev_path, 'w'), indent=1)
    shutil.rmtree(rundir, ignore_errors=True)
    if viol:
        for dest, sig, last in viol:
            log('--- libFuzzer artifact (%s) ---\n%s' % (sig, last[-3500:]))
            print('VIOLATION property=%s replay=%s' % (pid, os.path.relpath(dest, ROOT)))
        return 1
    if execs < jobs * tc['fuzz_runs'] * 0.5:
        log('GENERATOR-HEALTH GATE FAILED for C10 libFuzzer half: %d executions of %d planned' % (execs, jobs * tc['fuzz_runs']))
        return 2
    print('OK property=%s libfuzzer-half executions=%d boundary_sessions=%d' % (pid, execs, boundary))
    return 0


def replay_c10(pid, cfg, path):
    head = open(path, 'rb').read(16)
    if head.startswith(b'@session'):
        exe = build_engine_only('vg')
        if not exe:
            return 2
        logp = os.path.join(BUILD, 'tmp', 'vg-replay-%d.log' % os.getpid())
        os.makedirs(os.path.dirname(logp), exist_ok=True)
        res = drive_script(exe, path, logp)
        print(res['report'][-4000:])
        if res['violation']:
            print('VIOLATION property=%s replay=%s' % (pid, path))
            return 1
        return 0
    if b'# startup-probe' in open(path, 'rb').read(64):
        ok, out = startup_probe(pid)
        print(out)
        if ok is False:
            print('VIOLATION property=%s replay=%s' % (pid, path))
            return 1
        return 0 if ok else 2
    if head.startswith(b'# property'):
        exe = build('asan', 'runner')
        if not exe:
            return 2
        c, o = replay_once(exe, 'C10', path)
    else:
        exe = build('fuzz', 'fuzz')
        if not exe:
            return 2
        rundir = os.path.join(BUILD, 'tmp', 'fuzz-replay-%d' % os.getpid())
        os.makedirs(rundir, exist_ok=True)
        r = subprocess.run([exe, path], stdout=subprocess.PIPE, stderr=subprocess.STDOUT, text=True, env=fuzz_env(rundir), timeout=1200)
        shutil.rmtree(rundir, ignore_errors=True)
        c, o = r.returncode, r.stdout
    print(o[-4000:])
    if c != 0:
        known = [k for k in load_known() if k.get('property') == pid and k.get('status') == 'known']
        sig = crash_signature(o)
        for k in known:
            if k.get('signature') and re.search(k['signature'], sig + '\n' + o):
                print('KNOWN-FINDING: property=%s %s' % (pid, k.get('what', '')))
                return 0
        print('VIOLATION property=%s replay=%s' % (pid, path))
        return 1
    return 0
