#!/bin/bash
for p in C01 C02 C03 C04 C05 C06 C07 C08 C09 C10 C11 C12 C13 C14 C15 C16 C17 C18 C19 C20; do
  s=$(date +%s); ./check $p --tier thorough > out.$p.txt 2>&1; rc=$?; e=$(date +%s)
  grep -E "^OK|^VIOLATION|GATE|KNOWN" out.$p.txt | tr '\n' ' '; echo; echo "$p rc=$rc took $((e-s))s"
done
