#!/usr/bin/env python3
"""Re-run the checks against every kept seeded change (seeded/<id>/patch.diff) with the current harness and write
seeded/RESULTS.md.   tools/run_seeded.py [-j N] [id ...]
Each change is applied to its own scratch worktree of /repo under /tmp (removed afterwards); /repo itself is never touched.
"""
import sys, os, subprocess, json, re, time, shutil, glob
from concurrent.futures import ThreadPoolExecutor

ROOT = os.path.dirname(os.path.dirname(os.path.abspath(__file__)))


def sh(cmd, **kw):
    return subprocess.run(cmd, shell=True, stdout=subprocess.PIPE, stderr=subprocess.STDOUT, text=True, **kw)


def apply_patch(wt, patch):
    """git apply; if the tree has moved on since the patch was made (fix commits in the same files), fall back to a 3-way
    apply and return the refreshed diff against the current HEAD.  Returns (ok, output, refreshed_diff_or_None)"""
    r = subprocess.run('git -C %s apply %s' % (wt, patch), shell=True, stdout=subprocess.PIPE, stderr=subprocess.STDOUT, text=True)
    if r.returncode == 0:
        return True, r.stdout, None
    r3 = subprocess.run('git -C %s apply -3 %s' % (wt, patch), shell=True, stdout=subprocess.PIPE, stderr=subprocess.STDOUT, text=True)
    if r3.returncode != 0 or 'with conflicts' in r3.stdout:
        subprocess.run('git -C %s checkout -q -- . ; git -C %s reset -q --hard' % (wt, wt), shell=True)
        return False, r.stdout + r3.stdout, None
    d = subprocess.run('git -C %s diff HEAD -- engine tests' % wt, shell=True, stdout=subprocess.PIPE, text=True).stdout
    subprocess.run('git -C %s reset -q' % wt, shell=True)
    return True, r3.stdout, d


def run_one(sid):
    d = os.path.join(ROOT, 'seeded', sid)
    meta = json.load(open(os.path.join(d, 'meta.json')))
    if meta.get('superseded'):
        return sid, meta.get('checks', [])
    props = [meta['breaks_property']] + [p for p in meta.get('also_run', []) if p != meta['breaks_property']]
    WT = '/tmp/verif-rs-%s-%d' % (sid, os.getpid())
    sh('git -C /repo worktree remove --force %s' % WT)
    r = sh('git -C /repo worktree add --detach %s HEAD' % WT)
    out = []
    try:
        ok, aout, refreshed = apply_patch(WT, os.path.join(d, 'patch.diff'))
        if not ok:
            return sid, [dict(check='apply', status='PATCH-DOES-NOT-APPLY', signature=aout[-200:], wall_s=0)]
        if refreshed:
            # keep the change applicable to the current tree (the original stays next to it)
            if not os.path.exists(os.path.join(d, 'patch.orig.diff')):
                shutil.copy(os.path.join(d, 'patch.diff'), os.path.join(d, 'patch.orig.diff'))
            open(os.path.join(d, 'patch.diff'), 'w').write(refreshed)
            meta['patch_refreshed_on_repo_commit'] = sh('git -C /repo rev-parse --short HEAD').stdout.strip()
        env = dict(os.environ)
        env['VERIF_REPO'] = WT
        for p in props:
            t0 = time.time()
            r = subprocess.run([os.path.join(ROOT, 'check'), p, '--tier', os.environ.get('SENS_TIER', 'quick')], stdout=subprocess.PIPE, stderr=subprocess.STDOUT, text=True, env=env, cwd=ROOT)
            viol = re.findall(r'VIOLATION property=(\S+) replay=(\S+)', r.stdout)
            sig = re.findall(r'--- (?:violation detail|ThreadSanitizer report|libFuzzer artifact|start-up probe)[^\n]*', r.stdout)
            status = 'DETECTED' if r.returncode == 1 and viol else ('MISSED' if r.returncode == 0 else 'BROKEN(exit %d)' % r.returncode)
            s = sig[0] if sig else ''
            s = re.sub(r'^--- (violation detail|ThreadSanitizer report touching the stop flag|libFuzzer artifact|start-up probe of the real executable) ?', '', s).strip(' -()')
            out.append(dict(check='./check %s --tier %s' % (p, os.environ.get('SENS_TIER', 'quick')), status=status, signature=s, wall_s=round(time.time() - t0, 1)))
            print(sid, p, status, s[:100], '%.0fs' % (time.time() - t0), flush=True)
    finally:
        sh('git -C /repo worktree remove --force %s' % WT)
        shutil.rmtree(WT, ignore_errors=True)
    meta['checks'] = out
    meta['checks_run_at_verif_commit'] = sh('git -C %s rev-parse --short HEAD' % ROOT).stdout.strip()
    json.dump(meta, open(os.path.join(d, 'meta.json'), 'w'), indent=1)
    return sid, out


def main():
    args = sys.argv[1:]
    j = 3
    if args[:1] == ['-j']:
        j = int(args[1])
        args = args[2:]
    ids = args or sorted(os.path.basename(os.path.dirname(p)) for p in glob.glob(os.path.join(ROOT, 'seeded', '*', 'meta.json')))
    with ThreadPoolExecutor(j) as ex:
        res = dict(ex.map(run_one, ids))
    # RESULTS.md over all seeds (not only the ones just run)
    rows = []
    for p in sorted(glob.glob(os.path.join(ROOT, 'seeded', '*', 'meta.json'))):
        m = json.load(open(p))
        sid = m['seed_id']
        need = m.get('summary') or ''
        if m.get('superseded'):
            rows.append((sid, m['breaks_property'], need, '(not applicable to the current tree)', 'SUPERSEDED', m['superseded'][:160], 0))
            continue
        for c in m.get('checks', []):
            rows.append((sid, m['breaks_property'], need, c['check'], c['status'], c.get('signature', ''), c.get('wall_s', 0)))
    with open(os.path.join(ROOT, 'seeded', 'RESULTS.md'), 'w') as f:
        f.write('# Seeded changes and the checks that catch them\n\n')
        f.write('Generated by `tools/run_seeded.py`. Each seed was written by an independent sub-agent that saw only the property text; '
                '`meta.json` in each directory records the independent confirmation (demo passes unchanged / project tests pass with the change / demo fails with the change).\n\n')
        f.write('| seed | breaks | what it needs to manifest | check | result | signature | s |\n|---|---|---|---|---|---|---|\n')
        for r in rows:
            f.write('| %s | %s | %s | `%s` | **%s** | %s | %s |\n' % (r[0], r[1], r[2].replace('|', '/').replace('\n', ' '), r[3], r[4], r[5].replace('|', '/'), r[6]))
        live = [r for r in rows if r[4] != 'SUPERSEDED']
        det = sum(1 for r in live if r[4] == 'DETECTED' and r[3].split()[1] == r[1])
        own = sum(1 for r in live if r[3].split()[1] == r[1])
        f.write('\nOwn-property checks: %d of %d seeds detected by the quick tier.\n' % (det, own))
    return 0


if __name__ == '__main__':
    sys.exit(main())
