#!/bin/bash
# Generator-effectiveness measurement (not a check): run one property under clang source coverage and report which
# lines of the engine files it anchors in were executed.   tools/coverage.sh C13 "endgame.cpp score.cpp" [cases]
cd /verif
P=$1; FILES=$2; CASES=${3:-400}
EXE=$(python3 -c "
import sys; sys.path.insert(0,'lib')
import vlib; print(vlib.build('cov','runner'))")
D=/tmp/verif-cov-$$; mkdir -p $D
for s in 1 2 3 4; do LLVM_PROFILE_FILE=$D/p$s.profraw $EXE --prop ${P} --seed $s --cases $CASES --scale 6 --opt tmpdir=$D --opt zseed=1 >/dev/null 2>&1 & done; wait
llvm-profdata merge -o $D/all.profdata $D/*.profraw
for f in $FILES; do
  llvm-cov report $EXE -instr-profile=$D/all.profdata /repo/engine/$f 2>/dev/null | tail -3
  llvm-cov show $EXE -instr-profile=$D/all.profdata /repo/engine/$f 2>/dev/null | grep -E "^ +[0-9]+\| +0\|" | head -${4:-60}
done
rm -rf $D
