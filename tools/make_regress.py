#!/usr/bin/env python3
"""Rebuild the regression corpus: for every `fixed` finding, revert its fix in a scratch worktree, run the property's quick
check there and keep the shrunk failing tape as corpus/regress/<property>/<commit>.tape.  (Tapes decode through the
current generators, so re-run this after changing generators; a stale tape is still a valid case, just a weaker one.)
"""
import sys, os, subprocess, json, re, shutil, glob

ROOT = os.path.dirname(os.path.dirname(os.path.abspath(__file__)))


def sh(cmd, **kw):
    return subprocess.run(cmd, shell=True, stdout=subprocess.PIPE, stderr=subprocess.STDOUT, text=True, **kw)


def main():
    only = sys.argv[1:]
    for line in open(os.path.join(ROOT, 'known_findings.jsonl')):
        line = line.strip()
        if not line or line.startswith('#'):
            continue
        k = json.loads(line)
        if k.get('status') != 'fixed':
            continue
        pid, commit = k['property'], k['commit']
        if only and pid not in only:
            continue
        WT = '/tmp/verif-reg-%d' % os.getpid()
        sh('git -C /repo worktree remove --force %s' % WT)
        sh('git -C /repo worktree add --detach %s HEAD' % WT)
        try:
            r = sh('git -C %s show %s -- engine | git -C %s apply -R' % (WT, commit, WT))
            if r.returncode:
                print(pid, commit, 'cannot revert', r.stdout[-200:])
                continue
            env = dict(os.environ)
            env['VERIF_REPO'] = WT
            r = subprocess.run([os.path.join(ROOT, 'check'), pid, '--tier', 'quick'], stdout=subprocess.PIPE, stderr=subprocess.STDOUT, text=True, env=env, cwd=ROOT)
            m = re.findall(r'VIOLATION property=\S+ replay=(\S+)', r.stdout)
            kept = 0
            for rp in m:
                src = os.path.join(ROOT, rp)
                if src.endswith('.tape') and os.path.exists(src) and open(src).read().startswith('# property'):
                    d = os.path.join(ROOT, 'corpus', 'regress', pid)
                    os.makedirs(d, exist_ok=True)
                    # replay files keep run-specific options; drop the scratch tmpdir
                    txt = ''.join(l for l in open(src) if not l.startswith('# opt tmpdir='))
                    open(os.path.join(d, '%s.tape' % commit), 'w').write(txt)
                    kept += 1
                    break
            print(pid, commit, 'kept' if kept else 'no tape (%s)' % ('not detected' if r.returncode != 1 else 'non-tape replay'), flush=True)
        finally:
            sh('git -C /repo worktree remove --force %s' % WT)
            shutil.rmtree(WT, ignore_errors=True)
    return 0


if __name__ == '__main__':
    sys.exit(main())
