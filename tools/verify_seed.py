#!/usr/bin/env python3
"""Independently confirm a seeded change produced by a sub-agent and run the checks against it.

  tools/verify_seed.py <agent worktree> <A|B> <seed id> Cxx [Cyy ...]

Steps (all in a fresh scratch worktree of /repo under /tmp, removed afterwards):
  1. unchanged tree: build the demo, it must exit 0
  2. apply SEED/<X>/patch.diff; project build (cmake, Release) + ./unitTests must pass
  3. changed tree: the demo must fail
  4. run ./check Cxx (quick) with VERIF_REPO pointing at the changed tree
Writes /verif/seeded/<seed id>/{patch.diff,demo.*,README.md,meta.json}.
"""
import sys, os, subprocess, json, shutil, re, time, glob

ROOT = os.path.dirname(os.path.dirname(os.path.abspath(__file__)))


def sh(cmd, cwd=None, env=None, timeout=3600):
    r = subprocess.run(cmd, shell=True, stdout=subprocess.PIPE, stderr=subprocess.STDOUT, text=True, cwd=cwd, env=env, timeout=timeout)
    return r.returncode, r.stdout



def apply_patch(wt, patch):
    """git apply; if the tree has moved on since the patch was made (fix commits in the same files), fall back to a 3-way
    apply and return the refreshed diff against the current HEAD.  Returns (ok, output, refreshed_diff_or_None)"""
    r = subprocess.run('git -C %s apply %s' % (wt, patch), shell=True, stdout=subprocess.PIPE, stderr=subprocess.STDOUT, text=True)
    if r.returncode == 0:
        return True, r.stdout, None
    r3 = subprocess.run('git -C %s apply -3 %s' % (wt, patch), shell=True, stdout=subprocess.PIPE, stderr=subprocess.STDOUT, text=True)
    if r3.returncode != 0 or 'with conflicts' in r3.stdout:
        subprocess.run('git -C %s checkout -q -- . ; git -C %s reset -q --hard' % (wt, wt), shell=True)
        return False, r.stdout + r3.stdout, None
    d = subprocess.run('git -C %s diff HEAD -- engine tests' % wt, shell=True, stdout=subprocess.PIPE, text=True).stdout
    subprocess.run('git -C %s reset -q' % wt, shell=True)
    return True, r3.stdout, d

def main():
    agent_wt, X, sid = sys.argv[1], sys.argv[2], sys.argv[3]
    props = sys.argv[4:]
    src = os.path.join(agent_wt, 'SEED', X)
    WT = '/tmp/verif-seed-%d' % os.getpid()
    meta = dict(seed_id=sid, breaks_property=props[0], source='independent sub-agent given only the property text and a scratch worktree',
                steps=[], checks=[])
    sh('git -C /repo worktree remove --force %s' % WT)
    c, o = sh('git -C /repo worktree add --detach %s HEAD' % WT)
    if c:
        print(o)
        return 2
    try:
        # run the demo from a copy inside the scratch worktree (some demos locate the tree relative to their own path)
        local = os.path.join(WT, 'SEED', X)
        shutil.copytree(src, local)
        demo_cpp = os.path.join(local, 'demo.cpp')
        demo_sh = os.path.join(local, 'demo.sh')
        engine_srcs = ' '.join(sorted(p for p in glob.glob(WT + '/engine/*.cpp') if not p.endswith('main.cpp')))
        # a config header for the demo build
        os.makedirs(WT + '/build', exist_ok=True)
        shutil.copy(os.path.join(ROOT, 'harness', 'shim', 'chessplusplusConfig.h'), WT + '/build/chessplusplusConfig.h')

        def run_demo(tag):
            if os.path.exists(demo_cpp):
                c, o = sh('g++ -std=c++20 -O1 -DNDEBUG -I engine -I build %s %s -o build/demo_%s -pthread' % (demo_cpp, engine_srcs, tag), cwd=WT)
                if c:
                    return 'build-failed', o[-2000:]
                c, o = sh('./build/demo_%s' % tag, cwd=WT, timeout=1200)
                return c, o[-1500:]
            else:
                # script demos drive the built binary
                c, o = sh('cmake -G Ninja -B build -DFETCHCONTENT_SOURCE_DIR_GOOGLETEST=/usr/src/googletest -DFETCHCONTENT_FULLY_DISCONNECTED=ON >/dev/null && cmake --build build 2>&1 | tail -3', cwd=WT)
                c, o = sh('bash %s' % demo_sh, cwd=WT, timeout=1200)
                return c, o[-1500:]
        c0, o0 = run_demo('orig')
        meta['steps'].append(dict(step='demo on unchanged tree', exit=c0, tail=o0[-400:]))
        ok, o, refreshed = apply_patch(WT, os.path.join(src, 'patch.diff'))  # the SEED/ copy is untracked and not part of the patch
        c = 0 if ok else 1
        meta['steps'].append(dict(step='git apply patch.diff' + (' (3-way: the tree has moved on since the change was made)' if refreshed else ''), exit=c, tail=o[-300:]))
        if c:
            print('patch does not apply', o)
        c, o = sh('cmake -G Ninja -B build -DFETCHCONTENT_SOURCE_DIR_GOOGLETEST=/usr/src/googletest -DFETCHCONTENT_FULLY_DISCONNECTED=ON >/dev/null && cmake --build build 2>&1 | tail -3 && cd build && ./unitTests 2>&1 | tail -3', cwd=WT)
        passed = 'PASSED' in o and 'FAILED' not in o
        meta['steps'].append(dict(step='project build + unitTests on changed tree', exit=c, unit_tests_pass=passed, tail=o[-400:]))
        c1, o1 = run_demo('mut')
        meta['steps'].append(dict(step='demo on changed tree', exit=c1, tail=o1[-600:]))
        confirmed = (c0 == 0) and (c1 not in (0, 'build-failed')) and passed
        meta['confirmed'] = bool(confirmed)
        env = dict(os.environ)
        env['VERIF_REPO'] = WT
        for p in props:
            t0 = time.time()
            r = subprocess.run([os.path.join(ROOT, 'check'), p, '--tier', os.environ.get('SENS_TIER', 'quick')], stdout=subprocess.PIPE, stderr=subprocess.STDOUT, text=True, env=env, cwd=ROOT)
            viol = re.findall(r'VIOLATION property=(\S+) replay=(\S+)', r.stdout)
            sig = re.findall(r'--- (?:violation detail|ThreadSanitizer report|libFuzzer artifact)[^\n]*', r.stdout)
            status = 'DETECTED' if r.returncode == 1 and viol else ('MISSED' if r.returncode == 0 else 'BROKEN(exit %d)' % r.returncode)
            detail = ''
            m = re.search(r'REPLAY-FAIL[^\n]*\n((?:[^\n]*\n){1,6})', r.stdout)
            if m:
                detail = m.group(1)
            meta['checks'].append(dict(check='./check %s --tier quick' % p, status=status, wall_s=round(time.time() - t0, 1), signature=sig[0] if sig else '', detail=detail[:700]))
            print('%s %s %s %s %.0fs' % (sid, p, status, (sig[0] if sig else '')[:110], time.time() - t0), flush=True)
            if status.startswith('BROKEN'):
                print(r.stdout[-1200:])
        dst = os.path.join(ROOT, 'seeded', sid)
        os.makedirs(dst, exist_ok=True)
        for f in os.listdir(src):
            if os.path.isfile(os.path.join(src, f)) and os.path.getsize(os.path.join(src, f)) < 200000:
                shutil.copy(os.path.join(src, f), dst)
        if refreshed:
            shutil.copy(os.path.join(dst, 'patch.diff'), os.path.join(dst, 'patch.orig.diff'))
            open(os.path.join(dst, 'patch.diff'), 'w').write(refreshed)
            meta['patch_refreshed_on_repo_commit'] = subprocess.run('git -C /repo rev-parse --short HEAD', shell=True, stdout=subprocess.PIPE, text=True).stdout.strip()
        rd = os.path.join(src, 'README.md')
        meta['needs_to_manifest'] = open(rd).read()[:1500] if os.path.exists(rd) else ''
        json.dump(meta, open(os.path.join(dst, 'meta.json'), 'w'), indent=1)
        print('%s confirmed=%s' % (sid, confirmed))
    finally:
        sh('git -C /repo worktree remove --force %s' % WT)
        shutil.rmtree(WT, ignore_errors=True)
    return 0


if __name__ == '__main__':
    sys.exit(main())
