#!/usr/bin/env python3
"""Apply a change to a scratch worktree of /repo and run property checks against it.

  tools/sensitivity.py revert <fix-commit> Cxx [Cyy ...]      the fix reverted = the original defect re-seeded
  tools/sensitivity.py patch <patch.diff> Cxx [Cyy ...]       a seeded change
Prints one line per check: DETECTED / MISSED / BROKEN, the signature and the wall time.  The worktree lives under /tmp
and is removed afterwards.
"""
import sys, os, subprocess, time, json, re, shutil

ROOT = os.path.dirname(os.path.dirname(os.path.abspath(__file__)))
WT = '/tmp/verif-mut-%d' % os.getpid()


def sh(cmd, **kw):
    return subprocess.run(cmd, shell=True, stdout=subprocess.PIPE, stderr=subprocess.STDOUT, text=True, **kw)


def main():
    mode, what = sys.argv[1], sys.argv[2]
    props = sys.argv[3:]
    tier = os.environ.get('SENS_TIER', 'quick')
    sh('git -C /repo worktree remove --force %s' % WT)
    r = sh('git -C /repo worktree add --detach %s HEAD' % WT)
    if r.returncode:
        print(r.stdout)
        return 2
    try:
        if mode == 'revert':
            r = sh('git -C %s show %s -- engine | git -C %s apply -R' % (WT, what, WT))
        else:
            r = sh('git -C %s apply %s' % (WT, os.path.abspath(what)))
        if r.returncode:
            print('cannot apply:', r.stdout)
            return 2
        env = dict(os.environ)
        env['VERIF_REPO'] = WT
        results = []
        for p in props:
            t0 = time.time()
            r = subprocess.run([os.path.join(ROOT, 'check'), p, '--tier', tier], stdout=subprocess.PIPE, stderr=subprocess.STDOUT, text=True, env=env, cwd=ROOT)
            dt = time.time() - t0
            viol = re.findall(r'VIOLATION property=(\S+) replay=(\S+)', r.stdout)
            sig = re.findall(r'--- (?:violation detail|ThreadSanitizer report|libFuzzer artifact)[^\n]*', r.stdout)
            status = 'DETECTED' if r.returncode == 1 and viol else ('MISSED' if r.returncode == 0 else 'BROKEN(exit %d)' % r.returncode)
            print('%-8s %-6s %-9s %6.1fs %s' % (mode + ':' + os.path.basename(what)[:20], p, status, dt, (sig[0] if sig else '')[:150]), flush=True)
            if status.startswith('BROKEN'):
                print(r.stdout[-1500:])
            results.append(dict(property=p, status=status, wall_s=round(dt, 1), signature=sig[0] if sig else '', replays=[v[1] for v in viol]))
        print(json.dumps(results))
    finally:
        sh('git -C /repo worktree remove --force %s' % WT)
        shutil.rmtree(WT, ignore_errors=True)
    return 0


if __name__ == '__main__':
    sys.exit(main())
