// Oracle self-test: perft counts published in /repo/tests/run_perft_tests.sh (and the classical suite).
#include "refchess.h"
#include "../gen/posgen.h"
#include "refpolyglot.h"
#include <cstdio>
struct T { const char* fen; int d; unsigned long long n; };
static const T tests[] = {
 {"rnbqkbnr/pppppppp/8/8/8/8/PPPPPPPP/RNBQKBNR w KQkq - 0 1",4,197281ULL},
 {"r3k2r/p1ppqpb1/bn2pnp1/3PN3/1p2P3/2N2Q1p/PPPBBPPP/R3K2R w KQkq - 0 1",3,97862ULL},
 {"8/2p5/3p4/KP5r/1R3p1k/8/4P1P1/8 w - - 0 1",5,674624ULL},
 {"r3k2r/Pppp1ppp/1b3nbN/nP6/BBP1P3/q4N2/Pp1P2PP/R2Q1RK1 w kq - 0 1",4,422333ULL},
 {"r2q1rk1/pP1p2pp/Q4n2/bbp1p3/Np6/1B3NBn/pPPP1PPP/R3K2R b KQ - 0 1",4,422333ULL},
 {"rnbq1k1r/pp1Pbppp/2p5/8/2B5/8/PPP1NnPP/RNBQK2R w KQ - 1 8",3,62379ULL},
 {"r4rk1/1pp1qppp/p1np1n2/2b1p1B1/2B1P1b1/P1NP1N2/1PP1QPPP/R4RK1 w - - 0 10",3,89890ULL},
 {"r6r/1b2k1bq/8/8/7B/8/8/R3K2R b KQ - 3 2",1,8},
 {"8/8/8/2k5/2pP4/8/B7/4K3 b - d3 0 3",1,8},
 {"r1bqkbnr/pppppppp/n7/8/8/P7/1PPPPPPP/RNBQKBNR w KQkq - 2 2",1,19},
 {"r3k2r/p1pp1pb1/bn2Qnp1/2qPN3/1p2P3/2N5/PPPBBPPP/R3K2R b KQkq - 3 2",1,5},
 {"2kr3r/p1ppqpb1/bn2Qnp1/3PN3/1p2P3/2N5/PPPBBPPP/R3K2R b KQ - 3 2",1,44},
 {"rnb2k1r/pp1Pbppp/2p5/q7/2B5/8/PPPQNnPP/RNB1K2R w KQ - 3 9",1,39},
 {"2r5/3pk3/8/2P5/8/2K5/8/8 w - - 5 4",1,9},
 {"3k4/3p4/8/K1P4r/8/8/8/8 b - - 0 1",6,1134888ULL},
 {"8/8/4k3/8/2p5/8/B2P2K1/8 w - - 0 1",6,1015133ULL},
 {"8/8/1k6/2b5/2pP4/8/5K2/8 b - d3 0 1",6,1440467ULL},
 {"5k2/8/8/8/8/8/8/4K2R w K - 0 1",6,661072ULL},
 {"3k4/8/8/8/8/8/8/R3K3 w Q - 0 1",6,803711ULL},
 {"r3k2r/1b4bq/8/8/8/8/7B/R3K2R w KQkq - 0 1",4,1274206ULL},
 {"r3k2r/8/3Q4/8/8/5q2/8/R3K2R b KQkq - 0 1",4,1720476ULL},
 {"2K2r2/4P3/8/8/8/8/8/3k4 w - - 0 1",6,3821001ULL},
 {"8/8/1P2K3/8/2n5/1q6/8/5k2 b - - 0 1",5,1004658ULL},
 {"4k3/1P6/8/8/8/8/K7/8 w - - 0 1",6,217342ULL},
 {"8/P1k5/K7/8/8/8/8/8 w - - 0 1",6,92683ULL},
 {"K1k5/8/P7/8/8/8/8/8 w - - 0 1",6,2217ULL},
 {"8/k1P5/8/1K6/8/8/8/8 w - - 0 1",7,567584ULL},
 {"8/8/2k5/5q2/5n2/8/5K2/8 b - - 0 1",4,23527ULL},
};
int main(){
  int bad=0;
  for(const T&t:tests){ ref::Pos p; if(!ref::from_fen(t.fen,p)){printf("badfen %s\n",t.fen);bad++;continue;}
    unsigned long long n=ref::perft(p,t.d);
    if(n!=t.n){printf("MISMATCH %s d%d got %llu want %llu\n",t.fen,t.d,n,t.n);bad++;}
    if(ref::to_fen(p)!=std::string(t.fen)){printf("FEN roundtrip %s -> %s\n",t.fen,ref::to_fen(p).c_str());bad++;}
  }
  // the diagonally pinned en-passant capturer (not in the classical suite): e5f6 must be legal
  { ref::Pos p; ref::from_fen("8/6b1/8/4Pp2/8/2K5/8/7k w - f6 0 1",p); bool f=false; for(auto&m:ref::legal_moves(p)) f|=m.uci()=="e5f6"; if(!f){printf("pinned ep missing\n");bad++;} if(ref::legal_moves(p).size()!=9){printf("pinned ep count %zu\n",ref::legal_moves(p).size());bad++;} }
  // rank-exposed en passant must be illegal
  { ref::Pos p; ref::from_fen("8/8/8/K2pP2r/8/8/8/7k w - d6 0 1",p); for(auto&m:ref::legal_moves(p)) if(m.uci()=="e5d6"){printf("rank-exposed ep allowed\n");bad++;} }
  { struct V{const char*fen; unsigned long long k;}; static const V vs[]={
    {"rnbqkbnr/pppppppp/8/8/8/8/PPPPPPPP/RNBQKBNR w KQkq - 0 1", 0x463b96181691fc9cULL},
    {"rnbqkbnr/pppppppp/8/8/4P3/8/PPPP1PPP/RNBQKBNR b KQkq e3 0 1", 0x823c9b50fd114196ULL},
    {"rnbqkbnr/ppp1pppp/8/3p4/4P3/8/PPPP1PPP/RNBQKBNR w KQkq d6 0 2", 0x0756b94461c50fb0ULL},
    {"rnbqkbnr/ppp1pppp/8/3pP3/8/8/PPPP1PPP/RNBQKBNR b KQkq - 0 2", 0x662fafb965db29d4ULL},
    {"rnbqkbnr/ppp1p1pp/8/3pPp2/8/8/PPPP1PPP/RNBQKBNR w KQkq f6 0 3", 0x22a48b5a8e47ff78ULL},
    {"rnbqkbnr/ppp1p1pp/8/3pPp2/8/8/PPPPKPPP/RNBQ1BNR b kq - 0 3", 0x652a607ca3f242c1ULL},
    {"rnbq1bnr/ppp1pkpp/8/3pPp2/8/8/PPPPKPPP/RNBQ1BNR w - - 0 4", 0x00fdd303c946bdd9ULL},
    {"rnbqkbnr/p1pppppp/8/8/PpP4P/8/1P1PPPP1/RNBQKBNR b KQkq c3 0 3", 0x3c8123ea7b067637ULL},
    {"rnbqkbnr/p1pppppp/8/8/P6P/R1p5/1P1PPPP1/1NBQKBNR b Kkq - 0 4", 0x5c3f9b829b279560ULL}};
    for(const V&v:vs){ ref::Pos p; ref::from_fen(v.fen,p); if(ref::polyglot_key(p)!=v.k){printf("polyglot vector mismatch %s got %llx\n",v.fen,(unsigned long long)ref::polyglot_key(p));bad++;} }
    if(ref::POLYGLOT_RANDOM64[0]!=0x9D39247E33776D41ULL||ref::POLYGLOT_RANDOM64[780]!=0xF8D626AAAF278509ULL||ref::POLYGLOT_RANDOM64[768]!=0x31D71DCE64B2C310ULL||ref::POLYGLOT_RANDOM64[771]!=0x1EF6E6DBB1961EC9ULL||ref::POLYGLOT_RANDOM64[772]!=0x70CC73D90BC26E24ULL){printf("polyglot anchor constants\n");bad++;}
  }
  for(int i=0;i<gen::CATALOG_N;++i){ ref::Pos p; if(!ref::from_fen(gen::CATALOG[i],p)||!ref::domain_violation(p).empty()){printf("catalog entry outside domain: %s (%s)\n",gen::CATALOG[i],ref::domain_violation(p).c_str());bad++;} }
  printf(bad?"SELFTEST FAILED\n":"SELFTEST OK\n");
  return bad?1:0;
}
