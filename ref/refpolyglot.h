// Polyglot book key per the published format description, written independently of the engine.
#pragma once
#include "polyglot_random.h"
#include "refchess.h"
namespace ref
{
inline uint64_t polyglot_key(const Pos& p)
{
    uint64_t k = 0;
    for (int s = 0; s < 64; ++s)
    {
        char c = p.b[s];
        if (c == '.') continue;
        // kind_of_piece: bp=0 wp=1 bn=2 wn=3 bb=4 wb=5 br=6 wr=7 bq=8 wq=9 bk=10 wk=11
        int base;
        switch (lower(c))
        {
        case 'p': base = 0; break;
        case 'n': base = 2; break;
        case 'b': base = 4; break;
        case 'r': base = 6; break;
        case 'q': base = 8; break;
        default: base = 10;
        }
        int kind = base + (is_white(c) ? 1 : 0);
        k ^= POLYGLOT_RANDOM64[64 * kind + 8 * RK(s) + FL(s)];
    }
    if (p.cK) k ^= POLYGLOT_RANDOM64[768];
    if (p.cQ) k ^= POLYGLOT_RANDOM64[769];
    if (p.ck) k ^= POLYGLOT_RANDOM64[770];
    if (p.cq) k ^= POLYGLOT_RANDOM64[771];
    if (p.ep >= 0)
    {
        // only if a pawn of the side to move stands next to the pawn that has just advanced two squares
        int f = FL(p.ep);
        int r = p.wtm ? 4 : 3;  // rank of the pushed pawn (white to move: black pawn on rank 5)
        char mine = p.wtm ? 'P' : 'p';
        bool adj = (f > 0 && p.b[SQ(f - 1, r)] == mine) || (f < 7 && p.b[SQ(f + 1, r)] == mine);
        if (adj) k ^= POLYGLOT_RANDOM64[772 + f];
    }
    if (p.wtm) k ^= POLYGLOT_RANDOM64[780];
    return k;
}
}  // namespace ref
