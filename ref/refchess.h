// Independent rules oracle for the chessplusplus verification harnesses.
//
// Deliberately naive: an 8x8 character board, direction-vector walking, copy-make, legality by
// "make the move, is my king attacked?".  It shares no code, tables or idioms with the engine
// under test.  Validated by ref/selftest.cpp against the published perft counts listed in the
// repository's own tests/run_perft_tests.sh.
//
// Conventions: square = rank*8 + file, a1 = 0, h8 = 63.  Pieces are FEN letters, '.' = empty.
// FEN en-passant square: set after EVERY double pawn push (the convention the engine's FEN uses).
#pragma once
#include <algorithm>
#include <cctype>
#include <cstdint>
#include <cstring>
#include <sstream>
#include <string>
#include <vector>

namespace ref
{
inline int SQ(int f, int r) { return r * 8 + f; }
inline int FL(int s) { return s & 7; }
inline int RK(int s) { return s >> 3; }
inline bool on_board(int f, int r) { return f >= 0 && f < 8 && r >= 0 && r < 8; }
inline std::string sqname(int s)
{
    std::string r;
    r += char('a' + FL(s));
    r += char('1' + RK(s));
    return r;
}

struct Move
{
    int from = 0, to = 0;
    char promo = 0;  // 0 or one of 'n','b','r','q'
    bool operator==(const Move& o) const { return from == o.from && to == o.to && promo == o.promo; }
    bool operator<(const Move& o) const { return uci() < o.uci(); }
    std::string uci() const
    {
        std::string s = sqname(from) + sqname(to);
        if (promo) s += promo;
        return s;
    }
};

struct Pos
{
    char b[64];
    bool wtm = true;
    bool cK = false, cQ = false, ck = false, cq = false;
    int ep = -1;
    int half = 0;
    int full = 1;

    Pos() { std::memset(b, '.', 64); }
    char at(int s) const { return b[s]; }
};

inline bool is_white(char c) { return c >= 'A' && c <= 'Z'; }
inline bool is_black(char c) { return c >= 'a' && c <= 'z'; }
inline bool is_piece(char c) { return c != '.'; }
inline bool own(char c, bool white) { return white ? is_white(c) : is_black(c); }
inline bool enemy(char c, bool white) { return white ? is_black(c) : is_white(c); }
inline char lower(char c) { return char(std::tolower((unsigned char)c)); }

inline bool from_fen(const std::string& fen, Pos& p)
{
    p = Pos();
    std::istringstream is(fen);
    std::string board, side, cast, ep;
    if (!(is >> board >> side >> cast >> ep)) return false;
    int f = 0, r = 7;
    for (char c : board)
    {
        if (c == '/')
        {
            if (f != 8) return false;
            f = 0;
            --r;
        }
        else if (c >= '1' && c <= '8')
            f += c - '0';
        else
        {
            if (!on_board(f, r)) return false;
            if (!std::strchr("PNBRQKpnbrqk", c)) return false;
            p.b[SQ(f, r)] = c;
            ++f;
        }
    }
    if (r != 0 || f != 8) return false;
    p.wtm = side == "w";
    for (char c : cast)
    {
        if (c == 'K') p.cK = true;
        if (c == 'Q') p.cQ = true;
        if (c == 'k') p.ck = true;
        if (c == 'q') p.cq = true;
    }
    p.ep = -1;
    if (ep != "-")
    {
        if (ep.size() != 2) return false;
        p.ep = SQ(ep[0] - 'a', ep[1] - '1');
    }
    p.half = 0;
    p.full = 1;
    if (is >> p.half) is >> p.full;
    return true;
}

inline std::string placement(const Pos& p)
{
    std::string s;
    for (int r = 7; r >= 0; --r)
    {
        int run = 0;
        for (int f = 0; f < 8; ++f)
        {
            char c = p.b[SQ(f, r)];
            if (c == '.')
                ++run;
            else
            {
                if (run) s += char('0' + run);
                run = 0;
                s += c;
            }
        }
        if (run) s += char('0' + run);
        if (r) s += '/';
    }
    return s;
}

inline std::string rights_str(const Pos& p)
{
    std::string s;
    if (p.cK) s += 'K';
    if (p.cQ) s += 'Q';
    if (p.ck) s += 'k';
    if (p.cq) s += 'q';
    if (s.empty()) s = "-";
    return s;
}

// placement, side, rights, ep square: the four components that identify a position
inline std::string key4(const Pos& p)
{
    return placement(p) + (p.wtm ? " w " : " b ") + rights_str(p) + " " + (p.ep < 0 ? std::string("-") : sqname(p.ep));
}

inline std::string to_fen(const Pos& p)
{
    return key4(p) + " " + std::to_string(p.half) + " " + std::to_string(p.full);
}

inline int king_sq(const Pos& p, bool white)
{
    char k = white ? 'K' : 'k';
    for (int s = 0; s < 64; ++s)
        if (p.b[s] == k) return s;
    return -1;
}

static const int KN_DF[8] = {1, 2, 2, 1, -1, -2, -2, -1};
static const int KN_DR[8] = {2, 1, -1, -2, -2, -1, 1, 2};
static const int DIR_DF[8] = {0, 1, 1, 1, 0, -1, -1, -1};  // N NE E SE S SW W NW
static const int DIR_DR[8] = {1, 1, 0, -1, -1, -1, 0, 1};

// is square s attacked by a piece of colour `byWhite`?
inline bool attacked(const Pos& p, int s, bool byWhite)
{
    int f = FL(s), r = RK(s);
    // pawns: a white pawn on (f±1, r-1) attacks s
    int pr = byWhite ? r - 1 : r + 1;
    char pawn = byWhite ? 'P' : 'p';
    for (int df = -1; df <= 1; df += 2)
        if (on_board(f + df, pr) && p.b[SQ(f + df, pr)] == pawn) return true;
    char kn = byWhite ? 'N' : 'n';
    for (int i = 0; i < 8; ++i)
        if (on_board(f + KN_DF[i], r + KN_DR[i]) && p.b[SQ(f + KN_DF[i], r + KN_DR[i])] == kn) return true;
    char kg = byWhite ? 'K' : 'k';
    for (int i = 0; i < 8; ++i)
        if (on_board(f + DIR_DF[i], r + DIR_DR[i]) && p.b[SQ(f + DIR_DF[i], r + DIR_DR[i])] == kg) return true;
    for (int i = 0; i < 8; ++i)
    {
        bool diag = DIR_DF[i] != 0 && DIR_DR[i] != 0;
        int cf = f + DIR_DF[i], cr = r + DIR_DR[i];
        while (on_board(cf, cr))
        {
            char c = p.b[SQ(cf, cr)];
            if (c != '.')
            {
                if (own(c, byWhite))
                {
                    char l = lower(c);
                    if (l == 'q' || (diag && l == 'b') || (!diag && l == 'r')) return true;
                }
                break;
            }
            cf += DIR_DF[i];
            cr += DIR_DR[i];
        }
    }
    return false;
}

inline bool in_check(const Pos& p, bool white)
{
    int k = king_sq(p, white);
    return k >= 0 && attacked(p, k, !white);
}

// number of pieces giving check to the `white` king (for class labels)
inline int count_checkers(const Pos& p, bool white)
{
    int k = king_sq(p, white);
    if (k < 0) return 0;
    int n = 0;
    for (int s = 0; s < 64; ++s)
    {
        char c = p.b[s];
        if (!enemy(c, white)) continue;
        char l = lower(c);
        int df = FL(k) - FL(s), dr = RK(k) - RK(s);
        bool hit = false;
        if (l == 'p')
        {
            int dir = is_white(c) ? 1 : -1;
            hit = dr == dir && (df == 1 || df == -1);
        }
        else if (l == 'n')
            hit = (std::abs(df) == 1 && std::abs(dr) == 2) || (std::abs(df) == 2 && std::abs(dr) == 1);
        else if (l != 'k')
        {
            bool diag = std::abs(df) == std::abs(dr) && df != 0;
            bool orth = (df == 0) != (dr == 0);
            if ((diag && (l == 'b' || l == 'q')) || (orth && (l == 'r' || l == 'q')))
            {
                int sf = (df > 0) - (df < 0), sr = (dr > 0) - (dr < 0);
                int cf = FL(s) + sf, cr = RK(s) + sr;
                hit = true;
                while (cf != FL(k) || cr != RK(k))
                {
                    if (p.b[SQ(cf, cr)] != '.')
                    {
                        hit = false;
                        break;
                    }
                    cf += sf;
                    cr += sr;
                }
            }
        }
        if (hit) ++n;
    }
    return n;
}

inline void add_pawn_move(std::vector<Move>& out, int from, int to, bool white)
{
    int last = white ? 7 : 0;
    if (RK(to) == last)
    {
        for (char pr : {'q', 'r', 'b', 'n'}) out.push_back(Move{from, to, pr});
    }
    else
        out.push_back(Move{from, to, 0});
}

inline void pseudo_moves(const Pos& p, std::vector<Move>& out)
{
    out.clear();
    bool w = p.wtm;
    for (int s = 0; s < 64; ++s)
    {
        char c = p.b[s];
        if (!own(c, w)) continue;
        int f = FL(s), r = RK(s);
        char l = lower(c);
        if (l == 'p')
        {
            int dir = w ? 1 : -1;
            int start = w ? 1 : 6;
            if (on_board(f, r + dir) && p.b[SQ(f, r + dir)] == '.')
            {
                add_pawn_move(out, s, SQ(f, r + dir), w);
                if (r == start && p.b[SQ(f, r + 2 * dir)] == '.') out.push_back(Move{s, SQ(f, r + 2 * dir), 0});
            }
            for (int df = -1; df <= 1; df += 2)
            {
                if (!on_board(f + df, r + dir)) continue;
                int t = SQ(f + df, r + dir);
                if (enemy(p.b[t], w))
                    add_pawn_move(out, s, t, w);
                else if (t == p.ep && p.ep >= 0 && p.b[t] == '.')
                {
                    // en passant: the pawn to be captured stands beside the capturer
                    int victim = SQ(f + df, r);
                    if (p.b[victim] == (w ? 'p' : 'P')) out.push_back(Move{s, t, 0});
                }
            }
        }
        else if (l == 'n')
        {
            for (int i = 0; i < 8; ++i)
                if (on_board(f + KN_DF[i], r + KN_DR[i]))
                {
                    int t = SQ(f + KN_DF[i], r + KN_DR[i]);
                    if (!own(p.b[t], w)) out.push_back(Move{s, t, 0});
                }
        }
        else if (l == 'k')
        {
            for (int i = 0; i < 8; ++i)
                if (on_board(f + DIR_DF[i], r + DIR_DR[i]))
                {
                    int t = SQ(f + DIR_DF[i], r + DIR_DR[i]);
                    if (!own(p.b[t], w)) out.push_back(Move{s, t, 0});
                }
            // castling
            int home = w ? 4 : 60;
            if (s == home && !attacked(p, home, !w))
            {
                bool ks = w ? p.cK : p.ck, qs = w ? p.cQ : p.cq;
                char rook = w ? 'R' : 'r';
                if (ks && p.b[home + 3] == rook && p.b[home + 1] == '.' && p.b[home + 2] == '.' &&
                    !attacked(p, home + 1, !w) && !attacked(p, home + 2, !w))
                    out.push_back(Move{home, home + 2, 0});
                if (qs && p.b[home - 4] == rook && p.b[home - 1] == '.' && p.b[home - 2] == '.' && p.b[home - 3] == '.' &&
                    !attacked(p, home - 1, !w) && !attacked(p, home - 2, !w))
                    out.push_back(Move{home, home - 2, 0});
            }
        }
        else
        {
            for (int i = 0; i < 8; ++i)
            {
                bool diag = DIR_DF[i] != 0 && DIR_DR[i] != 0;
                if (l == 'b' && !diag) continue;
                if (l == 'r' && diag) continue;
                int cf = f + DIR_DF[i], cr = r + DIR_DR[i];
                while (on_board(cf, cr))
                {
                    int t = SQ(cf, cr);
                    if (own(p.b[t], w)) break;
                    out.push_back(Move{s, t, 0});
                    if (p.b[t] != '.') break;
                    cf += DIR_DF[i];
                    cr += DIR_DR[i];
                }
            }
        }
    }
}

inline bool is_castle(const Pos& p, const Move& m)
{
    return lower(p.b[m.from]) == 'k' && std::abs(FL(m.to) - FL(m.from)) == 2;
}
inline bool is_ep(const Pos& p, const Move& m)
{
    return lower(p.b[m.from]) == 'p' && m.to == p.ep && p.ep >= 0 && FL(m.from) != FL(m.to) && p.b[m.to] == '.';
}
inline bool is_capture(const Pos& p, const Move& m) { return p.b[m.to] != '.' || is_ep(p, m); }
inline bool is_double_push(const Pos& p, const Move& m)
{
    return lower(p.b[m.from]) == 'p' && std::abs(RK(m.to) - RK(m.from)) == 2;
}

inline Pos make(const Pos& p, const Move& m)
{
    Pos n = p;
    bool w = p.wtm;
    char c = p.b[m.from];
    char l = lower(c);
    bool cap = is_capture(p, m);
    bool ep = is_ep(p, m);
    bool castle = is_castle(p, m);
    n.b[m.from] = '.';
    if (ep) n.b[SQ(FL(m.to), RK(m.from))] = '.';
    char placed = c;
    if (m.promo) placed = w ? char(std::toupper((unsigned char)m.promo)) : m.promo;
    n.b[m.to] = placed;
    if (castle)
    {
        int r = RK(m.from);
        if (FL(m.to) == 6)
        {
            n.b[SQ(5, r)] = n.b[SQ(7, r)];
            n.b[SQ(7, r)] = '.';
        }
        else
        {
            n.b[SQ(3, r)] = n.b[SQ(0, r)];
            n.b[SQ(0, r)] = '.';
        }
    }
    // castling rights: lost when the king or the relevant rook leaves, or the rook square is captured on
    auto touch = [&](int s) {
        if (s == 4) n.cK = n.cQ = false;
        if (s == 60) n.ck = n.cq = false;
        if (s == 0) n.cQ = false;
        if (s == 7) n.cK = false;
        if (s == 56) n.cq = false;
        if (s == 63) n.ck = false;
    };
    touch(m.from);
    touch(m.to);
    n.ep = -1;
    if (l == 'p' && std::abs(RK(m.to) - RK(m.from)) == 2) n.ep = SQ(FL(m.from), (RK(m.from) + RK(m.to)) / 2);
    n.half = (l == 'p' || cap) ? 0 : p.half + 1;
    if (!w) n.full = p.full + 1;
    n.wtm = !w;
    return n;
}

inline void legal_moves(const Pos& p, std::vector<Move>& out)
{
    std::vector<Move> ps;
    pseudo_moves(p, ps);
    out.clear();
    for (const Move& m : ps)
    {
        Pos n = make(p, m);
        if (!in_check(n, p.wtm)) out.push_back(m);
    }
    std::sort(out.begin(), out.end());
}

inline std::vector<Move> legal_moves(const Pos& p)
{
    std::vector<Move> v;
    legal_moves(p, v);
    return v;
}

inline uint64_t perft(const Pos& p, int d)
{
    if (d == 0) return 1;
    std::vector<Move> ms;
    legal_moves(p, ms);
    if (d == 1) return ms.size();
    uint64_t n = 0;
    for (const Move& m : ms) n += perft(make(p, m), d - 1);
    return n;
}

inline bool gives_check(const Pos& p, const Move& m)
{
    Pos n = make(p, m);
    return in_check(n, n.wtm);
}

inline bool is_checkmate(const Pos& p) { return in_check(p, p.wtm) && legal_moves(p).empty(); }
inline bool is_stalemate(const Pos& p) { return !in_check(p, p.wtm) && legal_moves(p).empty(); }

inline int count(const Pos& p, char c)
{
    int n = 0;
    for (int s = 0; s < 64; ++s) n += p.b[s] == c;
    return n;
}

// insufficient material in the sense of the property: bare kings or a single minor piece
inline bool insufficient_material(const Pos& p)
{
    int minors = 0, others = 0;
    for (int s = 0; s < 64; ++s)
    {
        char l = lower(p.b[s]);
        if (l == 'n' || l == 'b')
            ++minors;
        else if (l != '.' && l != 'k')
            ++others;
    }
    return others == 0 && minors <= 1;
}

// Static sanity of a position w.r.t. the domain the properties quantify over ("one-ply retro-legal").
// Returns "" when the position is inside the domain, else a reason.
inline std::string domain_violation(const Pos& p)
{
    if (count(p, 'K') != 1 || count(p, 'k') != 1) return "kings";
    int wk = king_sq(p, true), bk = king_sq(p, false);
    if (std::abs(FL(wk) - FL(bk)) <= 1 && std::abs(RK(wk) - RK(bk)) <= 1) return "adjacent kings";
    for (int f = 0; f < 8; ++f)
        for (int r : {0, 7})
            if (lower(p.b[SQ(f, r)]) == 'p') return "pawn on back rank";
    for (char c : {'P', 'N', 'B', 'R', 'Q', 'p', 'n', 'b', 'r', 'q'})
        if (count(p, c) > (lower(c) == 'p' ? 8 : 10)) return "too many of a kind";
    // material reachable from the initial array: every piece beyond the original set is a promoted pawn
    for (int w = 0; w < 2; ++w)
    {
        auto C = [&](char c) { return count(p, w ? c : char(std::toupper((unsigned char)c))); };
        int extra = std::max(0, C('q') - 1) + std::max(0, C('r') - 2) + std::max(0, C('b') - 2) + std::max(0, C('n') - 2);
        if (C('p') + extra > 8) return "unreachable material";
    }
    if (in_check(p, !p.wtm)) return "side not to move in check";
    if (p.cK && !(p.b[4] == 'K' && p.b[7] == 'R')) return "rights K";
    if (p.cQ && !(p.b[4] == 'K' && p.b[0] == 'R')) return "rights Q";
    if (p.ck && !(p.b[60] == 'k' && p.b[63] == 'r')) return "rights k";
    if (p.cq && !(p.b[60] == 'k' && p.b[56] == 'r')) return "rights q";
    if (p.ep >= 0)
    {
        // the side NOT to move has just double-pushed
        bool pusherWhite = !p.wtm;
        int epr = pusherWhite ? 2 : 5;
        if (RK(p.ep) != epr) return "ep rank";
        int f = FL(p.ep);
        int pawnSq = SQ(f, pusherWhite ? 3 : 4), fromSq = SQ(f, pusherWhite ? 1 : 6);
        if (p.b[pawnSq] != (pusherWhite ? 'P' : 'p')) return "ep pawn";
        if (p.b[p.ep] != '.' || p.b[fromSq] != '.') return "ep path";
        // retro condition: before the push the side now to move was not in check
        Pos before = p;
        before.b[pawnSq] = '.';
        before.b[fromSq] = pusherWhite ? 'P' : 'p';
        before.wtm = pusherWhite;
        before.ep = -1;
        if (in_check(before, p.wtm)) return "ep retro check";
    }
    return "";
}

inline Pos startpos()
{
    Pos p;
    from_fen("rnbqkbnr/pppppppp/8/8/8/8/PPPPPPPP/RNBQKBNR w KQkq - 0 1", p);
    return p;
}

// A game: initial position + moves; gives history predicates the way the rules state them.
struct Game
{
    Pos cur;
    std::vector<std::string> keys;  // key4 of every position so far, including the current one
    std::vector<Move> moves;
    explicit Game(const Pos& start) : cur(start) { keys.push_back(key4(start)); }
    void play(const Move& m)
    {
        cur = make(cur, m);
        keys.push_back(key4(cur));
        moves.push_back(m);
    }
    int occurrences() const  // including the current one
    {
        int n = 0;
        for (const auto& k : keys) n += k == keys.back();
        return n;
    }
    bool repeated() const { return occurrences() >= 2; }
    bool threefold() const { return occurrences() >= 3; }
    bool fifty() const { return cur.half >= 100; }
};

}  // namespace ref
