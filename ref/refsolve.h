// Exhaustive solvers built on the rules oracle:
//  * ThreeMan: retrograde least fix-point "white can force a win" for K+X vs K, X in {pawn, queen, rook}
//    (KPK uses the KQK / KRK tables for promotions; bishop/knight promotions and captures of X are draws).
//  * mate solver: exhaustive AND/OR search "side to move mates within n plies" with a node budget.
#pragma once
#include "refchess.h"

#include <atomic>
#include <thread>

namespace ref
{
// state index: stm(1 bit: 0 white,1 black) | wk(6) | bk(6) | x(6)
struct ThreeMan
{
    char piece;                      // 'P','Q','R' (white)
    std::vector<uint8_t> legal;      // 1 if the state is a legal position
    std::vector<uint8_t> win;        // 1 if white can force a win
    std::vector<uint32_t> succ_off;  // CSR successor lists (indices into the same table, or special codes)
    std::vector<uint32_t> succ;
    static constexpr uint32_t S_DRAW = 0xFFFFFFFFu;     // successor is a dead draw (X captured, minor promotion)
    static constexpr uint32_t S_PROMO_Q = 0x80000000u;  // | index in KQK table
    static constexpr uint32_t S_PROMO_R = 0x40000000u;  // | index in KRK table

    static uint32_t idx(bool blackToMove, int wk, int bk, int x) { return (uint32_t(blackToMove) << 18) | (wk << 12) | (bk << 6) | x; }
    static constexpr uint32_t N = 1u << 19;

    static Pos build(char piece, bool blackToMove, int wk, int bk, int x)
    {
        Pos p;
        p.b[wk] = 'K';
        p.b[bk] = 'k';
        p.b[x] = piece;
        p.wtm = !blackToMove;
        return p;
    }
    static bool state_legal(char piece, bool btm, int wk, int bk, int x)
    {
        if (wk == bk || wk == x || bk == x) return false;
        if (piece == 'P' && (RK(x) == 0 || RK(x) == 7)) return false;
        if (std::max(std::abs(FL(wk) - FL(bk)), std::abs(RK(wk) - RK(bk))) <= 1) return false;
        Pos p = build(piece, btm, wk, bk, x);
        return !in_check(p, !p.wtm);
    }

    void generate(char pc, int nthreads = 16)
    {
        piece = pc;
        legal.assign(N, 0);
        win.assign(N, 0);
        std::vector<std::vector<uint32_t>> lists(N);
        auto work = [&](uint32_t lo, uint32_t hi) {
            std::vector<Move> ms;
            for (uint32_t s = lo; s < hi; ++s)
            {
                bool btm = s >> 18;
                int wk = (s >> 12) & 63, bk = (s >> 6) & 63, x = s & 63;
                if (!state_legal(pc, btm, wk, bk, x)) continue;
                legal[s] = 1;
                Pos p = build(pc, btm, wk, bk, x);
                legal_moves(p, ms);
                auto& L = lists[s];
                for (const Move& m : ms)
                {
                    if (btm)
                    {
                        if (m.to == x) L.push_back(S_DRAW);  // black captures X: bare kings
                        else L.push_back(idx(false, wk, m.to, x));
                    }
                    else if (m.from == wk)
                        L.push_back(idx(true, m.to, bk, x));
                    else if (m.promo)
                    {
                        if (m.promo == 'q') L.push_back(S_PROMO_Q | idx(true, wk, bk, m.to));
                        else if (m.promo == 'r') L.push_back(S_PROMO_R | idx(true, wk, bk, m.to));
                        else L.push_back(S_DRAW);
                    }
                    else
                        L.push_back(idx(true, wk, bk, m.to));
                }
                if (ms.empty() && btm && in_check(p, false)) win[s] = 1;  // black is checkmated
            }
        };
        std::vector<std::thread> th;
        uint32_t chunk = N / nthreads;
        for (int i = 0; i < nthreads; ++i) th.emplace_back(work, i * chunk, i == nthreads - 1 ? N : (i + 1) * chunk);
        for (auto& t : th) t.join();
        succ_off.assign(N + 1, 0);
        for (uint32_t s = 0; s < N; ++s) succ_off[s + 1] = succ_off[s] + uint32_t(lists[s].size());
        succ.resize(succ_off[N]);
        for (uint32_t s = 0; s < N; ++s) std::copy(lists[s].begin(), lists[s].end(), succ.begin() + succ_off[s]);
    }

    // least fix-point; q and r are solved tables for promotions (may be null for KQK/KRK themselves)
    void solve(const ThreeMan* q, const ThreeMan* r)
    {
        bool changed = true;
        while (changed)
        {
            changed = false;
            for (uint32_t s = 0; s < N; ++s)
            {
                if (!legal[s] || win[s]) continue;
                bool btm = s >> 18;
                uint32_t a = succ_off[s], b = succ_off[s + 1];
                if (a == b) continue;  // stalemate (or mate, already set)
                auto won = [&](uint32_t c) -> bool {
                    if (c == S_DRAW) return false;
                    if (c & S_PROMO_Q) return q && q->win[c & 0x7FFFF];
                    if (c & S_PROMO_R) return r && r->win[c & 0x7FFFF];
                    return win[c];
                };
                bool w;
                if (!btm)
                {
                    w = false;
                    for (uint32_t i = a; i < b && !w; ++i) w = won(succ[i]);
                }
                else
                {
                    w = true;
                    for (uint32_t i = a; i < b && w; ++i) w = won(succ[i]);
                }
                if (w)
                {
                    win[s] = 1;
                    changed = true;
                }
            }
        }
    }
};

struct KpkOracle
{
    ThreeMan q, r, p;
    void init()
    {
        q.generate('Q');
        q.solve(nullptr, nullptr);
        r.generate('R');
        r.solve(nullptr, nullptr);
        p.generate('P');
        p.solve(&q, &r);
    }
    // white pawn; returns true if White can force a win
    bool white_wins(bool blackToMove, int wk, int bk, int pawn) const { return p.win[ThreeMan::idx(blackToMove, wk, bk, pawn)]; }
    bool legal(bool blackToMove, int wk, int bk, int pawn) const { return p.legal[ThreeMan::idx(blackToMove, wk, bk, pawn)]; }
};

// ------------------------------------------------------------------------------------------------
// Mate solver: can the side to move force checkmate within `plies` plies (plies odd: 1 = mate in one)?
// Returns 1 yes, 0 no (exhaustively refuted), -1 budget exceeded (inconclusive).
// ------------------------------------------------------------------------------------------------
struct MateSolver
{
    uint64_t budget = 2000000, nodes = 0;
    int attacker_mates(const Pos& p, int plies)
    {
        if (++nodes > budget) return -1;
        std::vector<Move> ms;
        legal_moves(p, ms);
        if (plies <= 0) return 0;
        bool unknown = false;
        // checking moves first (cheap ordering)
        std::stable_sort(ms.begin(), ms.end(), [&](const Move& a, const Move& b) { return gives_check(p, a) > gives_check(p, b); });
        for (const Move& m : ms)
        {
            Pos n = make(p, m);
            int r = defender_mated(n, plies - 1);
            if (r == 1) return 1;
            if (r < 0) unknown = true;
        }
        return unknown ? -1 : 0;
    }
    // defender to move in p: is he mated within `plies` more plies against every defence?
    int defender_mated(const Pos& p, int plies)
    {
        if (++nodes > budget) return -1;
        std::vector<Move> ms;
        legal_moves(p, ms);
        if (ms.empty()) return in_check(p, p.wtm) ? 1 : 0;
        if (plies <= 0) return 0;
        bool unknown = false;
        for (const Move& m : ms)
        {
            Pos n = make(p, m);
            int r = attacker_mates(n, plies - 1);
            if (r == 0) return 0;
            if (r < 0) unknown = true;
        }
        return unknown ? -1 : 1;
    }
};

// does the side to move have a mate in one? returns the mating moves
inline std::vector<Move> mates_in_one(const Pos& p)
{
    std::vector<Move> r;
    for (const Move& m : legal_moves(p))
    {
        Pos n = make(p, m);
        if (in_check(n, n.wtm) && legal_moves(n).empty()) r.push_back(m);
    }
    return r;
}

}  // namespace ref
