// Structured position / game generators over a choice tape.  All positions returned satisfy
// ref::domain_violation(p) == "" (the domain the properties quantify over); construction, not
// rejection, with a counted fallback to the start position when a repair fails.
#pragma once
#include "../ref/refchess.h"
#include "tape.h"

namespace gen
{
using ref::Pos;
using ref::SQ;
using ref::FL;
using ref::RK;

struct Root
{
    Pos start;                     // FEN the game starts from
    std::vector<ref::Move> moves;  // legal moves played from start
    Pos cur;                       // position after the moves
    std::string kind;              // generator label
    std::string describe() const
    {
        std::string s = kind + " fen=" + ref::to_fen(start);
        if (!moves.empty())
        {
            s += " moves";
            for (auto& m : moves) s += " " + m.uci();
            s += " => " + ref::to_fen(cur);
        }
        return s;
    }
};

static const char* const CATALOG[] = {
    "rnbqkbnr/pppppppp/8/8/8/8/PPPPPPPP/RNBQKBNR w KQkq - 0 1",
    "r3k2r/p1ppqpb1/bn2pnp1/3PN3/1p2P3/2N2Q1p/PPPBBPPP/R3K2R w KQkq - 0 1",
    "8/2p5/3p4/KP5r/1R3p1k/8/4P1P1/8 w - - 0 1",
    "r3k2r/Pppp1ppp/1b3nbN/nP6/BBP1P3/q4N2/Pp1P2PP/R2Q1RK1 w kq - 0 1",
    "r2q1rk1/pP1p2pp/Q4n2/bbp1p3/Np6/1B3NBn/pPPP1PPP/R3K2R b KQ - 0 1",
    "rnbq1k1r/pp1Pbppp/2p5/8/2B5/8/PPP1NnPP/RNBQK2R w KQ - 1 8",
    "r4rk1/1pp1qppp/p1np1n2/2b1p1B1/2B1P1b1/P1NP1N2/1PP1QPPP/R4RK1 w - - 0 10",
    "r3k2r/8/8/8/8/8/8/R3K2R w KQkq - 5 10",
    "r3k2r/1b4bq/8/8/8/8/7B/R3K2R w KQkq - 0 1",
    "r3k2r/8/3Q4/8/8/5q2/8/R3K2R b KQkq - 0 1",
    "8/8/1k6/2b5/2pP4/8/5K2/8 b - d3 0 1",
    "8/6b1/8/4Pp2/8/2K5/8/7k w - f6 0 1",
    "r2q1rk1/ppp2ppp/3p1n2/4p3/1bPnP3/2NP1BPP/PP1B1P2/R2QK2R b KQ - 2 10",
    "rnbqkb1r/p3pppp/1p6/2ppP3/3N4/2P5/PPP1QPPP/R1B1KB1R w KQkq - 0 1",
    "rn1qkb1r/pb1p1ppp/1p2pn2/2p5/2PP4/5NP1/PP2PPBP/RNBQK2R w KQkq c6 0 6",
    "r3k2r/pbn2ppp/8/1P1pP3/P1qP4/5B2/3Q1PPP/R3K2R w KQkq - 0 1",
    "8/4p3/p2p4/2pP4/2P1P3/1P4k1/1P1K4/8 w - - 0 1",
    "1B1b4/7K/1p6/1k6/8/8/8/8 w - - 0 1",
    "8/8/1n4Pk/3p4/3P1P1p/1NK3P1/p1P4p/4B3 b - - 0 1",
    "r3kbnr/2p3p1/bp2P3/p3pp2/7p/2P4Q/PP1KPPPP/R4BNR b q - 0 1",
    "k7/8/1r1q1r1q/b1q1n1q1/1Q1N1Q1B/Q1R1Q1R1/8/7K w - - 0 1",
    "R6R/3Q4/1Q4Q1/4Q3/2Q4Q/Q4Q2/pp1Q4/kBNN1KB1 w - - 0 1",
    "8/4k3/p7/P7/PP4KN/8/8/8 w - - 0 1",
    "4k3/8/8/8/8/8/8/4K3 w - - 0 1",
    "n1n5/PPPk4/8/8/8/8/4Kppp/5N1N b - - 0 1",
    "8/8/8/8/8/6k1/4Kppp/8 b - - 0 1",
    "7k/5Q2/6K1/8/8/8/8/8 w - - 0 1",
    "8/8/8/K2pP2r/8/8/8/7k w - d6 0 1",
};
static const int CATALOG_N = int(sizeof(CATALOG) / sizeof(CATALOG[0]));

inline Pos fen_pos(const char* fen)
{
    Pos p;
    ref::from_fen(fen, p);
    return p;
}

// geometric "does the piece on s attack square k" (used to repair positions)
inline bool piece_attacks(const Pos& p, int s, int k)
{
    char c = p.b[s];
    if (c == '.') return false;
    char l = ref::lower(c);
    int df = FL(k) - FL(s), dr = RK(k) - RK(s);
    if (l == 'p')
    {
        int dir = ref::is_white(c) ? 1 : -1;
        return dr == dir && (df == 1 || df == -1);
    }
    if (l == 'n') return (std::abs(df) == 1 && std::abs(dr) == 2) || (std::abs(df) == 2 && std::abs(dr) == 1);
    if (l == 'k') return std::max(std::abs(df), std::abs(dr)) == 1;
    bool diag = std::abs(df) == std::abs(dr) && df != 0;
    bool orth = (df == 0) != (dr == 0);
    if (!((diag && (l == 'b' || l == 'q')) || (orth && (l == 'r' || l == 'q')))) return false;
    int sf = (df > 0) - (df < 0), sr = (dr > 0) - (dr < 0);
    int cf = FL(s) + sf, cr = RK(s) + sr;
    while (cf != FL(k) || cr != RK(k))
    {
        if (p.b[SQ(cf, cr)] != '.') return false;
        cf += sf;
        cr += sr;
    }
    return true;
}

// Remove pieces of the side to move that attack the other king until it is no longer in check.
inline int repair_not_to_move_check(Pos& p)
{
    int removed = 0;
    for (int guard = 0; guard < 40 && ref::in_check(p, !p.wtm); ++guard)
    {
        int k = ref::king_sq(p, !p.wtm);
        for (int s = 0; s < 64; ++s)
            if (ref::own(p.b[s], p.wtm) && ref::lower(p.b[s]) != 'k' && piece_attacks(p, s, k))
            {
                p.b[s] = '.';
                ++removed;
                break;
            }
    }
    return removed;
}

// delete surplus pieces until each side's material is reachable by promotions (pawns + promoted <= 8)
inline int enforce_material(Pos& p)
{
    int removed = 0;
    for (int w = 0; w < 2; ++w)
    {
        for (int guard = 0; guard < 64; ++guard)
        {
            auto up = [&](char c) { return w ? c : char(std::toupper((unsigned char)c)); };
            int np = ref::count(p, up('p'));
            int ex[4] = {ref::count(p, up('q')) - 1, ref::count(p, up('r')) - 2, ref::count(p, up('b')) - 2, ref::count(p, up('n')) - 2};
            int extra = 0;
            for (int e : ex) extra += std::max(0, e);
            if (np + extra <= 8) break;
            // remove one pawn if there are pawns, else one surplus piece (last on the board)
            char victim = 0;
            if (np > 0 && (guard & 1)) victim = up('p');
            else
                for (int k = 0; k < 4; ++k)
                    if (ex[k] > 0) { victim = up("qrbn"[k]); break; }
            if (!victim) victim = up('p');
            for (int s = 63; s >= 0; --s)
                if (p.b[s] == victim)
                {
                    p.b[s] = '.';
                    ++removed;
                    break;
                }
        }
    }
    return removed;
}

inline void fix_rights(Pos& p)
{
    if (!(p.b[4] == 'K' && p.b[7] == 'R')) p.cK = false;
    if (!(p.b[4] == 'K' && p.b[0] == 'R')) p.cQ = false;
    if (!(p.b[60] == 'k' && p.b[63] == 'r')) p.ck = false;
    if (!(p.b[60] == 'k' && p.b[56] == 'r')) p.cq = false;
}

// pick a free square; pawns avoid back ranks; `bias` != 0 prefers a region
inline int free_square(Tape& t, const Pos& p, bool pawn, int rlo = 0, int rhi = 7)
{
    int cand[64], n = 0;
    if (pawn)
    {
        rlo = std::max(rlo, 1);
        rhi = std::min(rhi, 6);
    }
    for (int s = 0; s < 64; ++s)
        if (p.b[s] == '.' && RK(s) >= rlo && RK(s) <= rhi) cand[n++] = s;
    if (!n) return -1;
    return cand[t.choose(n)];
}

inline void place_kings(Tape& t, Pos& p, bool home_bias)
{
    int wk = home_bias && !t.chance(1, 4) ? 4 : int(t.choose(64));
    p.b[wk] = 'K';
    int bk;
    if (home_bias && !t.chance(1, 4) && wk != 60 && !(std::abs(FL(wk) - 4) <= 1 && RK(wk) >= 6))
        bk = 60;
    else
    {
        int cand[64], n = 0;
        for (int s = 0; s < 64; ++s)
            if (std::max(std::abs(FL(s) - FL(wk)), std::abs(RK(s) - RK(wk))) > 1) cand[n++] = s;
        bk = cand[t.choose(n)];
    }
    p.b[bk] = 'k';
}

struct Material
{
    int n[2][5];  // [colour][p,n,b,r,q]
};

// Try to set up an en-passant situation on a position (side not to move has just double-pushed).
inline bool construct_ep(Tape& t, Pos& p)
{
    bool pusherWhite = !p.wtm;
    int f = int(t.choose(8));
    int r4 = pusherWhite ? 3 : 4, r3 = pusherWhite ? 2 : 5, r2 = pusherWhite ? 1 : 6;
    char pawn = pusherWhite ? 'P' : 'p', cap = pusherWhite ? 'p' : 'P';
    int s4 = SQ(f, r4), s3 = SQ(f, r3), s2 = SQ(f, r2);
    for (int s : {s4, s3, s2})
        if (ref::lower(p.b[s]) == 'k') return false;
    Pos q = p;
    q.b[s3] = '.';
    q.b[s2] = '.';
    if (q.b[s4] != pawn)
    {
        if (ref::count(q, pawn) >= 8 && q.b[s4] != pawn) return false;
        q.b[s4] = pawn;
    }
    int mode = int(t.choose(4));  // 0 none, 1 left, 2 right, 3 both
    for (int side = 0; side < 2; ++side)
    {
        if (!(mode & (1 << side))) continue;
        int cf = f + (side ? 1 : -1);
        if (cf < 0 || cf > 7) continue;
        int cs = SQ(cf, r4);
        if (ref::lower(q.b[cs]) == 'k') continue;
        if (q.b[cs] != cap && ref::count(q, cap) >= 8) continue;
        q.b[cs] = cap;
    }
    q.ep = s3;
    q.half = 0;
    fix_rights(q);
    enforce_material(q);
    repair_not_to_move_check(q);
    if (q.b[s4] != pawn) return false;
    if (!ref::domain_violation(q).empty()) return false;
    p = q;
    return true;
}

inline void choose_clocks(Tape& t, Pos& p)
{
    switch (t.choose(6))
    {
    case 0: p.half = 0; break;
    case 1: p.half = int(t.choose(10)); break;
    case 2: p.half = int(t.choose(100)); break;
    case 3: p.half = 90 + int(t.choose(20)); break;
    case 4: p.half = int(t.choose(151)); break;
    default: p.half = 0;
    }
    if (p.ep >= 0) p.half = 0;
    switch (t.choose(4))
    {
    case 0: p.full = 1; break;
    case 1: p.full = 1 + int(t.choose(60)); break;
    case 2: p.full = 1 + int(t.choose(400)); break;
    default: p.full = 1 + int(t.choose(3000));
    }
    if (p.full * 2 < p.half) p.full = p.half / 2 + 1;
}

// G-fen: random legal position by construction
inline Pos gen_fen(Tape& t, Report* rep = nullptr, int force_profile = -1)
{
    Pos p;
    int profile = force_profile >= 0 ? force_profile : int(t.choose(7));
    // 0 sparse, 1 endgame, 2 middlegame, 3 opening-like, 4 heavy (many queens), 5 minor-piece swarm, 6 pawn race
    place_kings(t, p, profile == 2 || profile == 3);
    int maxExtra[7] = {3, 6, 12, 15, 10, 10, 8};
    static const uint32_t W[7][5] = {
        {3, 2, 2, 2, 1}, {5, 2, 2, 3, 1}, {8, 3, 3, 3, 1}, {8, 2, 2, 2, 1}, {1, 0, 0, 1, 8}, {1, 5, 5, 1, 0}, {8, 0, 0, 1, 0}};
    for (int col = 0; col < 2; ++col)
    {
        int cnt[5] = {0, 0, 0, 0, 0};
        int extra = int(t.choose(maxExtra[profile] + 1));
        for (int i = 0; i < extra; ++i)
        {
            uint32_t sum = 0;
            for (int k = 0; k < 5; ++k) sum += W[profile][k];
            uint32_t v = t.choose(sum);
            int kind = 0;
            for (; kind < 5; ++kind)
            {
                if (v < W[profile][kind]) break;
                v -= W[profile][kind];
            }
            if (kind == 0 && cnt[0] >= 8) continue;
            if (kind > 0 && cnt[kind] >= 10) continue;
            bool white = col == 0;
            int s;
            if (kind == 0 && (profile == 6 || t.chance(1, 4)))
                s = free_square(t, p, true, white ? 4 : 1, white ? 6 : 3);  // advanced pawns
            else
                s = free_square(t, p, kind == 0);
            if (s < 0) continue;
            char c = "pnbrq"[kind];
            p.b[s] = white ? char(std::toupper(c)) : c;
            ++cnt[kind];
        }
        // home rooks for castling in some profiles
        if ((profile == 2 || profile == 3 || t.chance(1, 6)))
        {
            bool white = col == 0;
            int home = white ? 4 : 60;
            if (p.b[home] == (white ? 'K' : 'k'))
            {
                for (int rs : {home + 3, home - 4})
                    if (p.b[rs] == '.' && cnt[3] < 10 && !t.chance(1, 4))
                    {
                        p.b[rs] = white ? 'R' : 'r';
                        ++cnt[3];
                    }
            }
        }
    }
    p.wtm = !t.flag();
    p.cK = p.cQ = p.ck = p.cq = true;
    fix_rights(p);
    if (p.cK && t.chance(1, 4)) p.cK = false;
    if (p.cQ && t.chance(1, 4)) p.cQ = false;
    if (p.ck && t.chance(1, 4)) p.ck = false;
    if (p.cq && t.chance(1, 4)) p.cq = false;
    enforce_material(p);
    int removed = repair_not_to_move_check(p);
    fix_rights(p);
    if (rep && removed) rep->cls("gen:repaired_check");
    if (t.chance(1, 4))
    {
        bool ok = construct_ep(t, p);
        if (rep) rep->cls(ok ? "gen:ep_constructed" : "gen:ep_failed");
    }
    choose_clocks(t, p);
    if (!ref::domain_violation(p).empty())
    {
        if (rep) rep->cls("gen:fallback_startpos");
        return ref::startpos();
    }
    return p;
}

// ---- themed constructors (narrow regions named in the properties) ----

// (i)/(ii) en passant with pins: capturer pinned on a diagonal / rank exposure / file pin
inline Pos theme_ep_pin(Tape& t, Report* rep)
{
    for (int attempt = 0; attempt < 4; ++attempt)
    {
        Pos p;
        bool w = !t.flag();  // side to move (the capturer)
        p.wtm = w;
        int r5 = w ? 4 : 3;  // rank of both pawns
        int r6 = w ? 5 : 2;  // ep square rank
        int f = int(t.choose(8));
        int vf = f + (t.flag() ? 1 : -1);
        if (vf < 0 || vf > 7) vf = f == 0 ? 1 : f - 1;
        int cs = SQ(f, r5), vs = SQ(vf, r5);
        p.b[cs] = w ? 'P' : 'p';
        p.b[vs] = w ? 'p' : 'P';
        p.ep = SQ(vf, r6);
        int mode = int(t.choose(5));
        // 0: diagonal pin through the capturer along the capture diagonal (capture stays on the ray: legal)
        // 1: diagonal pin through the capturer along the other diagonal (illegal)
        // 2: rank exposure (king and rook/queen on the pawns' rank)
        // 3: file pin on the capturer (illegal)
        // 4: diagonal line through the victim pawn's square only (harmless) / random extras
        int ddf = 0, ddr = 0;
        int capdf = vf - f, capdr = w ? 1 : -1;
        if (mode == 0) { ddf = capdf; ddr = capdr; }
        else if (mode == 1) { ddf = -capdf; ddr = capdr; }
        else if (mode == 2) { ddf = t.flag() ? 1 : -1; ddr = 0; }
        else if (mode == 3) { ddf = 0; ddr = t.flag() ? 1 : -1; }
        else { ddf = t.flag() ? 1 : -1; ddr = t.flag() ? 1 : -1; }
        // own king on one side of the capturer along (-dd), attacker on the other side along (+dd)
        int kdist = 1 + int(t.choose(4)), adist = 1 + int(t.choose(4));
        bool flip = t.flag();
        int sgn = flip ? -1 : 1;
        int kf = f - sgn * ddf * kdist, kr = r5 - sgn * ddr * kdist;
        int af = f + sgn * ddf * adist, ar = r5 + sgn * ddr * adist;
        if (mode == 2)
        {
            // attacker must be beyond the victim or beyond the capturer on the rank; walk outward
            af = f + sgn * ddf * (adist + 1);
            ar = r5;
        }
        if (!ref::on_board(kf, kr) || !ref::on_board(af, ar)) continue;
        int ks = SQ(kf, kr), as = SQ(af, ar);
        if (p.b[ks] != '.' || p.b[as] != '.' || ks == p.ep || as == p.ep) continue;
        int origin = SQ(vf, w ? 6 : 1);
        if (ks == origin || as == origin) continue;
        p.b[ks] = w ? 'K' : 'k';
        bool diag = ddf != 0 && ddr != 0;
        char att = diag ? (t.flag() ? 'b' : 'q') : (t.flag() ? 'r' : 'q');
        p.b[as] = w ? att : char(std::toupper(att));
        // other king somewhere legal
        int cand[64], n = 0;
        for (int s = 0; s < 64; ++s)
            if (p.b[s] == '.' && s != p.ep && s != origin &&
                std::max(std::abs(FL(s) - kf), std::abs(RK(s) - kr)) > 1)
                cand[n++] = s;
        if (!n) continue;
        p.b[cand[t.choose(n)]] = w ? 'k' : 'K';
        // a few random extras
        int extras = int(t.choose(4));
        for (int i = 0; i < extras; ++i)
        {
            int s = free_square(t, p, false);
            if (s < 0 || s == p.ep || s == origin) continue;
            char c = "nbrqNBRQ"[t.choose(8)];
            p.b[s] = c;
        }
        enforce_material(p);
        repair_not_to_move_check(p);
        if (p.b[cs] != (w ? 'P' : 'p')) continue;
        p.half = 0;
        p.full = 1 + int(t.choose(80));
        if (!ref::domain_violation(p).empty()) continue;
        if (rep) rep->cls("gen:theme_ep_pin_mode" + std::to_string(mode));
        return p;
    }
    if (rep) rep->cls("gen:theme_ep_pin_fallback");
    return gen_fen(t, rep);
}

// (iii) checks: add one or two checking pieces against the side to move
inline Pos theme_checks(Tape& t, Report* rep)
{
    Pos p = gen_fen(t, rep);
    bool w = p.wtm;
    int k = ref::king_sq(p, w);
    int want = 1 + int(t.choose(2));
    for (int i = 0; i < want; ++i)
    {
        char kinds[] = {'q', 'r', 'b', 'n', 'p'};
        char c = kinds[t.choose(5)];
        char pc = w ? c : char(std::toupper(c));  // enemy of side to move
        if (ref::count(p, pc) >= (c == 'p' ? 8 : 10)) continue;
        int cand[64], n = 0;
        for (int s = 0; s < 64; ++s)
        {
            if (p.b[s] != '.') continue;
            if (c == 'p' && (RK(s) == 0 || RK(s) == 7)) continue;
            Pos q = p;
            q.b[s] = pc;
            if (piece_attacks(q, s, k)) cand[n++] = s;
        }
        if (!n) continue;
        int s = cand[t.choose(n)];
        Pos q = p;
        q.b[s] = pc;
        q.ep = -1;
        if (ref::domain_violation(q).empty()) p = q;
    }
    if (rep) rep->cls("gen:theme_checks");
    return p;
}

// (iv) castling with attacked / occupied path squares
inline Pos theme_castling(Tape& t, Report* rep)
{
    for (int attempt = 0; attempt < 3; ++attempt)
    {
        Pos p;
        p.b[4] = 'K';
        p.b[60] = 'k';
        if (!t.chance(1, 5)) { p.b[7] = 'R'; p.cK = true; }
        if (!t.chance(1, 5)) { p.b[0] = 'R'; p.cQ = true; }
        if (!t.chance(1, 5)) { p.b[63] = 'r'; p.ck = true; }
        if (!t.chance(1, 5)) { p.b[56] = 'r'; p.cq = true; }
        p.wtm = !t.flag();
        int extras = int(t.choose(7));
        for (int i = 0; i < extras; ++i)
        {
            bool white = t.flag();
            char c = "qrbnp"[t.weighted({3, 3, 3, 3, 2})];
            // enemy pieces near the castling side's path; own pieces sometimes on the path
            int s = free_square(t, p, c == 'p', 0, 7);
            if (t.chance(1, 3))
            {
                // put a piece directly on a first/eighth-rank path square
                int pathsq[] = {1, 2, 3, 5, 6, 57, 58, 59, 61, 62};
                int ps = pathsq[t.choose(10)];
                if (p.b[ps] == '.' && c != 'p') s = ps;
            }
            if (s < 0) continue;
            p.b[s] = white ? char(std::toupper(c)) : c;
        }
        enforce_material(p);
        repair_not_to_move_check(p);
        fix_rights(p);
        choose_clocks(t, p);
        if (!ref::domain_violation(p).empty()) continue;
        if (rep) rep->cls("gen:theme_castling");
        return p;
    }
    return gen_fen(t, rep);
}

// (v) pawns on the seventh: promotions with capture, check, discovered check, mate
inline Pos theme_promo(Tape& t, Report* rep)
{
    for (int attempt = 0; attempt < 3; ++attempt)
    {
        Pos p;
        bool w = !t.flag();
        p.wtm = w;
        int r7 = w ? 6 : 1, r8 = w ? 7 : 0;
        // enemy king on or near the back rank
        int ekf = int(t.choose(8));
        int ekr = t.chance(1, 4) ? (w ? 6 : 1) : r8;
        p.b[SQ(ekf, ekr)] = w ? 'k' : 'K';
        int np = 1 + int(t.choose(3));
        for (int i = 0; i < np; ++i)
        {
            int f = int(t.choose(8));
            int s = SQ(f, r7);
            if (p.b[s] == '.') p.b[s] = w ? 'P' : 'p';
        }
        // enemy pieces on the back rank to capture
        int ne = int(t.choose(4));
        for (int i = 0; i < ne; ++i)
        {
            int f = int(t.choose(8));
            int s = SQ(f, r8);
            char c = "rnbq"[t.choose(4)];
            if (p.b[s] == '.') p.b[s] = w ? c : char(std::toupper(c));
        }
        // own king
        int cand[64], n = 0;
        int eks = SQ(ekf, ekr);
        for (int s = 0; s < 64; ++s)
            if (p.b[s] == '.' && std::max(std::abs(FL(s) - FL(eks)), std::abs(RK(s) - RK(eks))) > 1) cand[n++] = s;
        if (!n) continue;
        p.b[cand[t.choose(n)]] = w ? 'K' : 'k';
        // own sliders behind pawns (discovered checks) and random extras
        int extras = int(t.choose(5));
        for (int i = 0; i < extras; ++i)
        {
            int s = free_square(t, p, false);
            if (s < 0) continue;
            bool white = t.chance(2, 3) ? w : !w;
            char c = "rbqn"[t.choose(4)];
            p.b[s] = white ? char(std::toupper(c)) : c;
        }
        enforce_material(p);
        repair_not_to_move_check(p);
        fix_rights(p);
        choose_clocks(t, p);
        if (!ref::domain_violation(p).empty()) continue;
        if (rep) rep->cls("gen:theme_promo");
        return p;
    }
    return gen_fen(t, rep);
}

// (vi) several like pieces converging on one square (SAN disambiguation), many-queen positions
inline Pos theme_swarm(Tape& t, Report* rep)
{
    for (int attempt = 0; attempt < 3; ++attempt)
    {
        Pos p;
        bool w = !t.flag();
        p.wtm = w;
        place_kings(t, p, false);
        char kind = "qnrb"[t.choose(4)];
        int cnt = 2 + int(t.choose(8));
        for (int i = 0; i < cnt; ++i)
        {
            int s = free_square(t, p, false);
            if (s < 0) break;
            p.b[s] = w ? char(std::toupper(kind)) : kind;
        }
        int extras = int(t.choose(6));
        for (int i = 0; i < extras; ++i)
        {
            char c = "pnbrq"[t.choose(5)];
            int s = free_square(t, p, c == 'p');
            if (s < 0) continue;
            bool white = t.flag();
            char pc = white ? char(std::toupper(c)) : c;
            if (ref::count(p, pc) >= (c == 'p' ? 8 : 10)) continue;
            p.b[s] = pc;
        }
        enforce_material(p);
        repair_not_to_move_check(p);
        choose_clocks(t, p);
        if (!ref::domain_violation(p).empty()) continue;
        if (rep) rep->cls("gen:theme_swarm");
        return p;
    }
    return gen_fen(t, rep);
}

// (vii) the pawn that has just advanced two squares gives check and capturing it en passant is the only
// (or almost the only) legal reply: the king is boxed in by its own men, the checking pawn is protected
inline Pos theme_ep_evasion(Tape& t, Report* rep)
{
    Pos best;
    bool haveBest = false;
    for (int attempt = 0; attempt < 12; ++attempt)
    {
        Pos p;
        bool w = !t.flag();  // side to move = the side in check (captures en passant)
        p.wtm = w;
        // pusher's pawn stands on its 4th rank (rank index 3 if the pusher is White, i.e. Black to move)
        int r4 = w ? 4 : 3, r3 = w ? 5 : 2, r2 = w ? 6 : 1;  // pawn, ep square, origin (board ranks)
        int kr = w ? 3 : 4;                                  // the checked king stands one rank "in front" of the pawn from the pusher's view
        int f = 1 + int(t.choose(6));
        int kf = f + (t.flag() ? 1 : -1);
        char P = w ? 'p' : 'P', mineP = w ? 'P' : 'p';
        p.b[SQ(f, r4)] = P;
        p.b[SQ(kf, kr)] = w ? 'K' : 'k';
        // capturer(s) beside the pushed pawn
        int cmode = int(t.choose(3));
        if (cmode != 1 && f > 0 && p.b[SQ(f - 1, r4)] == '.') p.b[SQ(f - 1, r4)] = mineP;
        if (cmode != 0 && f < 7 && p.b[SQ(f + 1, r4)] == '.') p.b[SQ(f + 1, r4)] = mineP;
        if (p.b[SQ(f - 1 >= 0 ? f - 1 : f + 1, r4)] != mineP && (f + 1 > 7 || p.b[SQ(f + 1, r4)] != mineP)) continue;
        p.ep = SQ(f, r3);
        // protect the checking pawn with a pawn of its own side
        int pf = f + (t.flag() ? 1 : -1);
        if (pf >= 0 && pf <= 7 && p.b[SQ(pf, r3)] == '.' && SQ(pf, r3) != p.ep) p.b[SQ(pf, r3)] = P;
        // box the king in with its own men
        for (int d = 0; d < 8; ++d)
        {
            int nf = kf + ref::DIR_DF[d], nr = kr + ref::DIR_DR[d];
            if (!ref::on_board(nf, nr)) continue;
            int s = SQ(nf, nr);
            if (p.b[s] != '.' || s == p.ep || s == SQ(f, r2)) continue;
            if (t.chance(1, 5)) continue;
            char c = (nr >= 1 && nr <= 6 && t.chance(2, 3)) ? 'p' : (t.flag() ? 'n' : 'b');
            char pc = w ? char(std::toupper(c)) : c;
            if (ref::count(p, pc) >= (c == 'p' ? 8 : 2)) continue;
            p.b[s] = pc;
        }
        // the other king far away
        int cand[64], n = 0;
        for (int s = 0; s < 64; ++s)
            if (p.b[s] == '.' && s != p.ep && s != SQ(f, r2) && std::max(std::abs(FL(s) - kf), std::abs(RK(s) - kr)) > 2) cand[n++] = s;
        if (!n) continue;
        p.b[cand[t.choose(n)]] = w ? 'k' : 'K';
        p.half = 0;
        p.full = 1 + int(t.choose(60));
        if (!ref::domain_violation(p).empty()) continue;
        std::vector<ref::Move> ms = ref::legal_moves(p);
        bool anyEp = false, onlyEp = !ms.empty();
        for (auto& m : ms)
        {
            if (ref::is_ep(p, m)) anyEp = true;
            else onlyEp = false;
        }
        if (!anyEp) continue;
        if (onlyEp)
        {
            if (rep) rep->cls("gen:theme_ep_evasion_only_reply");
            return p;
        }
        if (!haveBest || ms.size() < ref::legal_moves(best).size())
        {
            best = p;
            haveBest = true;
        }
    }
    if (haveBest)
    {
        if (rep) rep->cls("gen:theme_ep_evasion_some_replies");
        return best;
    }
    if (rep) rep->cls("gen:theme_ep_evasion_fallback");
    return theme_ep_pin(t, rep);
}

inline Pos gen_theme(Tape& t, Report* rep)
{
    if (t.chance(1, 10)) return theme_ep_evasion(t, rep);
    switch (t.choose(5))
    {
    case 0: return theme_ep_pin(t, rep);
    case 1: return theme_checks(t, rep);
    case 2: return theme_castling(t, rep);
    case 3: return theme_promo(t, rep);
    default: return theme_swarm(t, rep);
    }
}

// any start position: catalogue, constructed or themed
inline Pos gen_start(Tape& t, Report* rep)
{
    switch (t.weighted({3, 3, 4, 4}))
    {
    case 0: return ref::startpos();
    case 1: return fen_pos(CATALOG[t.choose(CATALOG_N)]);
    case 2: return gen_fen(t, rep);
    default: return gen_theme(t, rep);
    }
}

// choose a move from a sorted legal list with a bias toward interesting kinds
inline int pick_move(Tape& t, const Pos& p, const std::vector<ref::Move>& ms, const ref::Move* lastOwn)
{
    if (ms.empty()) return -1;
    int mode = int(t.choose(9));
    std::vector<int> cand;
    if (mode == 8)
    {
        // traffic on the kings' home squares by other pieces: a rook or queen arriving on e1/e8 or leaving it along the
        // back rank (moves whose text looks like castling, e1g1 / e1c1 / e8g8 / e8c8, without being castling)
        for (size_t i = 0; i < ms.size(); ++i)
        {
            char l = ref::lower(p.b[ms[i].from]);
            bool home = ms[i].from == 4 || ms[i].from == 60, tohome = ms[i].to == 4 || ms[i].to == 60;
            if ((home && l != 'k' && l != 'p') || (tohome && (l == 'r' || l == 'q'))) cand.push_back(int(i));
        }
        // prefer the castling-like destinations when leaving the home square
        std::vector<int> like;
        for (int i : cand)
            if ((ms[i].from == 4 || ms[i].from == 60) && (FL(ms[i].to) == 6 || FL(ms[i].to) == 2) && RK(ms[i].to) == RK(ms[i].from)) like.push_back(i);
        if (!like.empty() && t.flag()) cand = like;
    }
    if (mode == 4)
    {
        for (size_t i = 0; i < ms.size(); ++i)
            if (ref::is_capture(p, ms[i])) cand.push_back(int(i));
    }
    else if (mode == 5)
    {
        for (size_t i = 0; i < ms.size(); ++i)
            if (ref::gives_check(p, ms[i])) cand.push_back(int(i));
    }
    else if (mode == 6)
    {
        for (size_t i = 0; i < ms.size(); ++i)
            if (ref::is_castle(p, ms[i]) || ms[i].promo || ref::is_ep(p, ms[i]) || ref::is_double_push(p, ms[i]))
                cand.push_back(int(i));
    }
    else if (mode == 7 && lastOwn)
    {
        for (size_t i = 0; i < ms.size(); ++i)
            if (ms[i].from == lastOwn->to && ms[i].to == lastOwn->from && !ms[i].promo) cand.push_back(int(i));
    }
    if (cand.empty()) return int(t.choose(uint32_t(ms.size())));
    return cand[t.choose(uint32_t(cand.size()))];
}

// G-walk: a legal game from some start position.  Histories stay inside legal games:
// no position occurs more than five times and the half-move clock stays <= 150 (FIDE 9.6).
inline Root gen_walk(Tape& t, Report* rep, int maxPlies, const Pos* forcedStart = nullptr)
{
    Root r;
    r.start = forcedStart ? *forcedStart : gen_start(t, rep);
    r.kind = "walk";
    ref::Game g(r.start);
    int plies = maxPlies > 0 ? int(t.choose(uint32_t(maxPlies + 1))) : 0;
    std::vector<ref::Move> ms;
    for (int i = 0; i < plies; ++i)
    {
        ref::legal_moves(g.cur, ms);
        if (ms.empty()) break;
        const ref::Move* lastOwn = g.moves.size() >= 2 ? &g.moves[g.moves.size() - 2] : nullptr;
        int idx = pick_move(t, g.cur, ms, lastOwn);
        ref::Pos nxt = ref::make(g.cur, ms[idx]);
        if (nxt.half > 150) break;
        std::string k = ref::key4(nxt);
        int occ = 1;
        for (auto& kk : g.keys) occ += kk == k;
        if (occ > 5) break;
        g.play(ms[idx]);
    }
    r.moves = g.moves;
    r.cur = g.cur;
    return r;
}

// single position (no history) from any generator
inline Root gen_root(Tape& t, Report* rep, int maxPlies)
{
    switch (t.weighted({2, 3, 3}))
    {
    case 0: return gen_walk(t, rep, maxPlies);
    case 1:
    {
        Root r;
        r.start = r.cur = gen_fen(t, rep);
        r.kind = "fen";
        return r;
    }
    default:
    {
        Root r;
        r.start = r.cur = gen_theme(t, rep);
        r.kind = "theme";
        return r;
    }
    }
}

// class labels of a position (computed by the oracle)
struct Labels
{
    bool in_check = false, double_check = false, ep = false, castling_right = false, pawn7 = false, pinned = false;
    bool ep_capturable = false, castle_legal = false;
    int nmoves = 0;
};

inline Labels label(const Pos& p, const std::vector<ref::Move>& legal)
{
    Labels L;
    int chk = ref::count_checkers(p, p.wtm);
    L.in_check = chk >= 1;
    L.double_check = chk >= 2;
    L.ep = p.ep >= 0;
    L.castling_right = p.wtm ? (p.cK || p.cQ) : (p.ck || p.cq);
    for (int f = 0; f < 8; ++f)
        if (p.b[SQ(f, p.wtm ? 6 : 1)] == (p.wtm ? 'P' : 'p')) L.pawn7 = true;
    L.nmoves = int(legal.size());
    for (auto& m : legal)
    {
        if (ref::is_ep(p, m)) L.ep_capturable = true;
        if (ref::is_castle(p, m)) L.castle_legal = true;
    }
    // pinned: some pseudo-legal non-king move is illegal while not in check
    if (!L.in_check)
    {
        std::vector<ref::Move> ps;
        ref::pseudo_moves(p, ps);
        for (auto& m : ps)
            if (ref::lower(p.b[m.from]) != 'k' && std::find(legal.begin(), legal.end(), m) == legal.end())
            {
                L.pinned = true;
                break;
            }
    }
    return L;
}

}  // namespace gen

namespace gen
{
// G-game: a long legal game with phases (normal play, reversible shuffling that builds repetitions and
// high clocks, capture hunts that cross the insufficient-material boundary).
inline Root gen_game(Tape& t, Report* rep, int maxPlies, const Pos* forcedStart = nullptr)
{
    Root r;
    r.start = forcedStart ? *forcedStart : gen_start(t, rep);
    r.kind = "game";
    ref::Game g(r.start);
    int plies = maxPlies > 0 ? int(t.choose(uint32_t(maxPlies + 1))) : 0;
    std::vector<ref::Move> ms;
    int phase = 0, phaseLeft = 0;
    for (int i = 0; i < plies; ++i)
    {
        ref::legal_moves(g.cur, ms);
        if (ms.empty()) break;
        if (phaseLeft <= 0)
        {
            phase = t.weighted({4, 3, 2, 1});  // 0 normal, 1 shuffle, 2 capture hunt, 3 quiet non-pawn moves (clock run-up)
            phaseLeft = 1 + int(t.choose(phase == 1 ? 16 : (phase == 3 ? 60 : 12)));
        }
        --phaseLeft;
        int idx = -1;
        const ref::Move* lastOwn = g.moves.size() >= 2 ? &g.moves[g.moves.size() - 2] : nullptr;
        // a double pawn push answered at once by castling (the ep square must vanish although no "ordinary" move was played),
        // followed by a shuffle so that the position after castling can recur
        if (g.cur.ep >= 0 && t.chance(1, 2))
        {
            for (size_t k = 0; k < ms.size(); ++k)
                if (ref::is_castle(g.cur, ms[k]) && (idx < 0 || t.flag())) idx = int(k);
            if (idx >= 0)
            {
                phase = 1;
                phaseLeft = 6 + int(t.choose(8));
            }
        }
        if (idx < 0 && phase == 1 && lastOwn)
        {
            for (size_t k = 0; k < ms.size(); ++k)
                if (ms[k].from == lastOwn->to && ms[k].to == lastOwn->from && !ms[k].promo &&
                    ref::lower(g.cur.b[ms[k].from]) != 'p' && !ref::is_capture(g.cur, ms[k]))
                    idx = int(k);
        }
        if (idx < 0 && (phase == 1 || phase == 3))
        {
            std::vector<int> cand;
            for (size_t k = 0; k < ms.size(); ++k)
                if (ref::lower(g.cur.b[ms[k].from]) != 'p' && !ref::is_capture(g.cur, ms[k]) && !ref::is_castle(g.cur, ms[k]))
                    cand.push_back(int(k));
            if (!cand.empty()) idx = cand[t.choose(uint32_t(cand.size()))];
        }
        if (idx < 0 && phase == 2)
        {
            std::vector<int> cand;
            for (size_t k = 0; k < ms.size(); ++k)
                if (ref::is_capture(g.cur, ms[k])) cand.push_back(int(k));
            if (!cand.empty()) idx = cand[t.choose(uint32_t(cand.size()))];
        }
        if (idx < 0) idx = pick_move(t, g.cur, ms, lastOwn);
        ref::Pos nxt = ref::make(g.cur, ms[idx]);
        if (nxt.half > 150) break;
        std::string k = ref::key4(nxt);
        int occ = 1;
        for (auto& kk : g.keys) occ += kk == k;
        if (occ > 5)
        {
            // try any other move that keeps the history legal
            bool found = false;
            for (size_t j = 0; j < ms.size() && !found; ++j)
            {
                ref::Pos n2 = ref::make(g.cur, ms[j]);
                if (n2.half > 150) continue;
                std::string k2 = ref::key4(n2);
                int o2 = 1;
                for (auto& kk : g.keys) o2 += kk == k2;
                if (o2 <= 5)
                {
                    idx = int(j);
                    found = true;
                }
            }
            if (!found) break;
            phaseLeft = 0;
        }
        g.play(ms[idx]);
    }
    r.moves = g.moves;
    r.cur = g.cur;
    return r;
}
// a long legal game (shuffles with periodic irreversible moves keep it legal)
inline Root long_game(Tape& t, Report* rep, int lo, int hi)
{
    (void)rep;
    struct ExtendGuard
    {
        Tape& t;
        bool old;
        explicit ExtendGuard(Tape& tt) : t(tt), old(tt.extend) { t.extend = true; }
        ~ExtendGuard() { t.extend = old; }
    } guard(t);
    ref::Pos s = ref::startpos();
    Root best;
    int target = lo + int(t.choose(uint32_t(hi - lo + 1)));
    if (lo <= 780 && hi >= 800 && t.chance(1, 3)) target = 780 + int(t.choose(21));  // around the history buffer's size
    // gen_game draws its own length in [0, max]; force a long one by chaining segments
    ref::Game g(s);
    std::vector<ref::Move> ms;
    int sinceIrrev = 0;
    while (int(g.moves.size()) < target)
    {
        ref::legal_moves(g.cur, ms);
        if (ms.empty()) break;
        // prefer quiet non-pawn moves; every ~60 plies play a pawn move or capture to reset the clock
        std::vector<int> quiet, irrev;
        for (size_t k = 0; k < ms.size(); ++k)
        {
            bool irr = ref::lower(g.cur.b[ms[k].from]) == 'p' || ref::is_capture(g.cur, ms[k]);
            (irr ? irrev : quiet).push_back(int(k));
        }
        int idx;
        bool wantIrrev = sinceIrrev > 60 + int(t.choose(60));
        if ((wantIrrev && !irrev.empty()) || quiet.empty()) idx = irrev.empty() ? int(t.choose(uint32_t(ms.size()))) : irrev[t.choose(uint32_t(irrev.size()))];
        else idx = quiet[t.choose(uint32_t(quiet.size()))];
        // keep the history legal: clock <= 150, no position more than 5 times (check only the recent window)
        bool ok = false;
        for (int tries = 0; tries < 8 && !ok; ++tries)
        {
            ref::Pos n = ref::make(g.cur, ms[idx]);
            if (n.half <= 150)
            {
                std::string k = ref::key4(n);
                int occ = 1;
                for (int i = int(g.keys.size()) - 1; i >= 0 && i >= int(g.keys.size()) - 1 - n.half; --i) occ += g.keys[i] == k;
                if (occ <= 4) ok = true;
            }
            if (!ok) idx = int(t.choose(uint32_t(ms.size())));
        }
        if (!ok) break;
        bool irr = ref::lower(g.cur.b[ms[idx].from]) == 'p' || ref::is_capture(g.cur, ms[idx]);
        sinceIrrev = irr ? 0 : sinceIrrev + 1;
        g.play(ms[idx]);
    }
    best.start = s;
    best.moves = g.moves;
    best.cur = g.cur;
    best.kind = "long_game";
    return best;
}

}  // namespace gen
