// Pool of mate-in-one positions whose mating move is a SPECIAL move: en-passant capture (also as a discovered check through
// the square of the captured pawn), promotion (queen and under-promotion), castling, discovered check, double check.
// Such mates are too rare for the general generators (a few per million positions), so each process builds a pool once by
// rejection sampling over recipes that put the special move on the board, deciding "is mate" with the rules oracle.  The
// sampler's stream is a pure function of the shard's zseed option (recorded in every replay file), so a replay rebuilds
// the identical pool.
#pragma once
#include "../ref/refchess.h"
#include "posgen.h"
#include "tape.h"

namespace mp
{
enum Kind { EP, EP_DISCOVERED, EP_THROUGH_CAPTURED_SQUARE, PROMO_Q, UNDERPROMO, KNIGHT_PROMO, CASTLE, DISCOVERED, DOUBLE_CHECK, NKIND };
static const char* const KNAME[NKIND] = {"en_passant", "en_passant_discovered", "en_passant_line_through_captured_pawn", "promotion_queen", "underpromotion", "knight_promotion", "castling", "discovered_check", "double_check"};
struct Entry
{
    ref::Pos p;
    std::string mate;
};
struct Pool
{
    std::vector<Entry> k[NKIND];
    long tries = 0, mates = 0;
};

inline int cheb(int a, int b) { return std::max(std::abs(ref::FL(a) - ref::FL(b)), std::abs(ref::RK(a) - ref::RK(b))); }

inline int square_near(Tape& t, const ref::Pos& p, int center, int radius, bool pawn)
{
    int cand[64], n = 0;
    for (int s = 0; s < 64; ++s)
        if (p.b[s] == '.' && cheb(s, center) <= radius && (!pawn || (ref::RK(s) >= 1 && ref::RK(s) <= 6))) cand[n++] = s;
    return n ? cand[t.choose(uint32_t(n))] : -1;
}

inline bool candidate(Tape& t, int recipe, ref::Pos& p)
{
    bool w = t.flag();
    p = ref::Pos();
    p.wtm = w;
    auto A = [&](char c) { return w ? char(std::toupper((unsigned char)c)) : c; };
    auto D = [&](char c) { return w ? c : char(std::toupper((unsigned char)c)); };
    auto R = [&](int rel) { return w ? rel : 7 - rel; };
    int ak = -1;
    if (recipe == 2)
    {
        ak = ref::SQ(4, R(0));
        p.b[ak] = A('k');
        bool kingside = t.flag();
        p.b[ref::SQ(kingside ? 7 : 0, R(0))] = A('r');
        (w ? (kingside ? p.cK : p.cQ) : (kingside ? p.ck : p.cq)) = true;
    }
    int dk = -1;
    if (recipe == 5)
    {
        // en passant with a bishop or queen behind the captured pawn on a diagonal that leads to the defender's king
        int f = int(t.choose(8)), g = f + (t.flag() ? 1 : -1);
        if (g < 0 || g > 7) return false;
        int a = ref::SQ(f, R(4)), d = ref::SQ(g, R(4)), e5 = ref::SQ(g, R(5)), e6 = ref::SQ(g, R(6));
        int df = t.flag() ? 1 : -1, dr = t.flag() ? 1 : -1;
        std::vector<int> fwd, bwd;
        for (int ff = g + df, rr = R(4) + dr; ref::on_board(ff, rr); ff += df, rr += dr) fwd.push_back(ref::SQ(ff, rr));
        for (int ff = g - df, rr = R(4) - dr; ref::on_board(ff, rr); ff -= df, rr -= dr) bwd.push_back(ref::SQ(ff, rr));
        if (fwd.empty() || bwd.empty()) return false;
        dk = fwd[t.choose(uint32_t(fwd.size()))];
        int sl = bwd[t.choose(uint32_t(bwd.size()))];
        if (dk == a || sl == a || dk == e5 || dk == e6 || sl == e5 || sl == e6) return false;
        p.b[a] = A('p');
        p.b[d] = D('p');
        p.ep = e5;
        p.b[dk] = D('k');
        p.b[sl] = A(t.chance(1, 3) ? 'q' : 'b');
        p.b[e5] = p.b[e6] = '#';
        // keep the diagonal open
        for (int sq : fwd)
            if (p.b[sq] == '.' && sq != dk) p.b[sq] = '#';
        for (int sq : bwd)
            if (p.b[sq] == '.' && sq != sl) p.b[sq] = '#';
    }
    // the defender's king: mostly on the edge
    for (int guard = 0; dk < 0; ++guard)
    {
        int f = int(t.choose(8)), r = int(t.choose(8));
        if (t.chance(3, 4)) (t.flag() ? f : r) = t.flag() ? 0 : 7;
        if (recipe == 2 && t.chance(3, 4))
        {
            // castling mates: the rook lands on the d/f file or sweeps the first rank
            if (t.flag()) f = t.flag() ? 3 : 5;
            else r = R(0);
        }
        int cand = ref::SQ(f, r);
        if (p.b[cand] == '.' && (ak < 0 || cheb(cand, ak) >= 2))
        {
            dk = cand;
            p.b[dk] = D('k');
        }
        else if (guard > 20)
            return false;
    }
    if (recipe == 0)
    {
        int f = int(t.choose(8)), g = f + (t.flag() ? 1 : -1);
        if (g < 0 || g > 7) return false;
        int a = ref::SQ(f, R(4)), d = ref::SQ(g, R(4)), e5 = ref::SQ(g, R(5)), e6 = ref::SQ(g, R(6));
        if (p.b[a] != '.' || p.b[d] != '.' || p.b[e5] != '.' || p.b[e6] != '.') return false;
        p.b[a] = A('p');
        p.b[d] = D('p');
        p.ep = e5;
        // keep the two squares behind the pushed pawn free while decorating
        p.b[e5] = p.b[e6] = '#';
    }
    else if (recipe == 1)
    {
        int f = int(t.choose(8));
        int a = ref::SQ(f, R(6)), to = ref::SQ(f, R(7));
        if (p.b[a] != '.') return false;
        p.b[a] = A('p');
        if (t.chance(1, 3))
        {
            int g = f + (t.flag() ? 1 : -1);
            if (g >= 0 && g <= 7 && p.b[ref::SQ(g, R(7))] == '.') p.b[ref::SQ(g, R(7))] = D("rbnq"[t.choose(4)]);
            if (p.b[to] == '.' && t.flag()) p.b[to] = D("rbn"[t.choose(3)]);  // blocked: only the capture promotes
        }
    }
    else if (recipe == 3)
    {
        // a slider aimed at the king with exactly one attacker piece in between
        int dir = int(t.choose(8));
        int df = ref::DIR_DF[dir], dr = ref::DIR_DR[dir];
        std::vector<int> line;
        for (int f = ref::FL(dk) + df, r = ref::RK(dk) + dr; ref::on_board(f, r); f += df, r += dr) line.push_back(ref::SQ(f, r));
        if (line.size() < 2) return false;
        int xi = int(t.choose(uint32_t(line.size() - 1))), si = xi + 1 + int(t.choose(uint32_t(line.size() - xi - 1)));
        if (p.b[line[xi]] != '.' || p.b[line[si]] != '.') return false;
        bool diag = df != 0 && dr != 0;
        p.b[line[si]] = A(t.chance(1, 3) ? 'q' : (diag ? 'b' : 'r'));
        char x = "nnbrpk"[t.choose(6)];
        if ((x == 'b' && diag) || (x == 'r' && !diag)) x = 'n';
        if (x == 'p' && (ref::RK(line[xi]) == 0 || ref::RK(line[xi]) == 7)) x = 'n';
        if (x == 'k')
        {
            if (cheb(line[xi], dk) < 2) return false;
            ak = line[xi];
        }
        p.b[line[xi]] = A(x);
    }
    if (ak < 0)
    {
        for (int guard = 0;; ++guard)
        {
            int s = t.chance(1, 2) ? square_near(t, p, dk, 3, false) : gen::free_square(t, p, false);
            if (s >= 0 && cheb(s, dk) >= 2)
            {
                ak = s;
                break;
            }
            if (guard > 20) return false;
        }
        p.b[ak] = A('k');
    }
    int na = 1 + int(t.choose(4)), nd = int(t.choose(5));
    for (int i = 0; i < na; ++i)
    {
        char c = "qrrbbnnp"[t.choose(8)];
        int s = t.chance(2, 3) ? square_near(t, p, dk, 3, c == 'p') : gen::free_square(t, p, c == 'p');
        if (s >= 0) p.b[s] = A(c);
    }
    for (int i = 0; i < nd; ++i)
    {
        char c = "pppprbnq"[t.choose(8)];
        int s = t.chance(3, 5) ? square_near(t, p, dk, 1, c == 'p') : gen::free_square(t, p, c == 'p');
        if (s >= 0) p.b[s] = D(c);
    }
    for (int s = 0; s < 64; ++s)
        if (p.b[s] == '#') p.b[s] = '.';
    gen::fix_rights(p);
    if (recipe == 2 && !(p.cK || p.cQ || p.ck || p.cq)) return false;
    return ref::domain_violation(p).empty();
}

inline void classify(const ref::Pos& p, Pool& P, size_t cap)
{
    int dk = ref::king_sq(p, !p.wtm);
    // kinds of every mating move; a position enters the pool of a kind only if EVERY mate in one is of that kind, so that
    // an engine which mishandles the special move cannot escape into an ordinary mate
    std::vector<std::pair<std::string, unsigned>> mates;
    unsigned common = ~0u;
    for (const ref::Move& m : ref::legal_moves(p))
    {
        ref::Pos q = ref::make(p, m);
        if (!ref::in_check(q, q.wtm)) continue;
        if (!ref::legal_moves(q).empty()) continue;
        ++P.mates;
        bool ep = ref::is_ep(p, m), castle = ref::is_castle(p, m);
        bool direct = !castle && gen::piece_attacks(q, m.to, dk);
        int checkers = ref::count_checkers(q, q.wtm);
        unsigned kinds = 0;
        if (ep) kinds |= 1u << EP;
        if (ep && (!direct || checkers >= 2)) kinds |= 1u << EP_DISCOVERED;
        if (ep)
        {
            // the third square an en-passant capture vacates: does the check run through it?
            ref::Pos back = q;
            int capSq = ref::SQ(ref::FL(m.to), ref::RK(m.from));
            back.b[capSq] = p.b[capSq];
            if (!ref::in_check(back, back.wtm)) kinds |= 1u << EP_THROUGH_CAPTURED_SQUARE;
        }
        if (m.promo == 'q') kinds |= 1u << PROMO_Q;
        if (m.promo && m.promo != 'q') kinds |= 1u << UNDERPROMO;
        if (m.promo == 'n') kinds |= 1u << KNIGHT_PROMO;
        if (castle) kinds |= 1u << CASTLE;
        if (!ep && !castle && !direct) kinds |= 1u << DISCOVERED;
        if (checkers >= 2) kinds |= 1u << DOUBLE_CHECK;
        mates.push_back({m.uci(), kinds});
        common &= kinds;
    }
    if (mates.empty()) return;
    for (int k = 0; k < NKIND; ++k)
        if ((common >> k & 1) && P.k[k].size() < cap) P.k[k].push_back(Entry{p, mates[0].first});
}

inline Pool build(uint64_t seed, long maxTries, size_t cap)
{
    Pool P;
    std::vector<uint32_t> words;
    uint64_t x = seed * 0x9E3779B97F4A7C15ULL + 0x1234567;
    for (int i = 0; i < 16; ++i)
    {
        x ^= x >> 12, x ^= x << 25, x ^= x >> 27;
        words.push_back(uint32_t((x * 0x2545F4914F6CDD1DULL) >> 32));
    }
    Tape t(words);
    t.extend = true;
    static const int RECIPE_FOR[NKIND] = {0, 0, 5, 1, 1, 1, 2, 3, 3};
    while (P.tries < maxTries)
    {
        // work on the kinds that are still short
        int need = -1;
        for (int k = 0; k < NKIND; ++k)
            if (P.k[k].size() < cap && (need < 0 || P.k[k].size() < P.k[need].size())) need = k;
        if (need < 0) break;
        ++P.tries;
        ref::Pos p;
        if (!candidate(t, t.chance(1, 8) ? 4 : RECIPE_FOR[need], p)) continue;
        classify(p, P, cap);
    }
    return P;
}

// the process-wide pool (built on first use; `seed` comes from the shard's zseed option)
inline const Pool& pool(uint64_t seed, long maxTries, size_t cap)
{
    static Pool P = build(seed, maxTries, cap);
    return P;
}

}  // namespace mp
