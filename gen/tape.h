// Choice tape: the single source of generated choices for every structured generator.
// rapidcheck (or libFuzzer) owns the words; generators only read them.  An exhausted tape yields 0,
// and every generator is written so that 0 selects its simplest alternative, which gives
// Hypothesis-style internal shrinking through rapidcheck's vector/integer shrinkers.
#pragma once
#include <cstdint>
#include <cstdio>
#include <functional>
#include <initializer_list>
#include <map>
#include <string>
#include <unordered_set>
#include <vector>

struct Tape
{
    const uint32_t* p;
    size_t n, i = 0;
    Tape(const uint32_t* p_, size_t n_) : p(p_), n(n_) {}
    explicit Tape(const std::vector<uint32_t>& v) : p(v.data()), n(v.size()) {}
    bool exhausted() const { return i >= n; }
    // When `extend` is set, an exhausted tape continues with a stream that is a pure function of the tape's own words
    // (so the case is still determined by the generated input); used only by generators that need thousands of choices
    // (very long games), where "all zeros" would just repeat one move.
    bool extend = false;
    uint64_t ext_state = 0;
    uint32_t next()
    {
        if (i < n) return p[i++];
        if (!extend) return 0;
        if (ext_state == 0)
        {
            ext_state = 0x9E3779B97F4A7C15ULL;
            for (size_t k = 0; k < n; ++k) ext_state = (ext_state ^ p[k]) * 0x100000001B3ULL;
            ext_state |= 1;
        }
        ext_state ^= ext_state >> 12;
        ext_state ^= ext_state << 25;
        ext_state ^= ext_state >> 27;
        return uint32_t((ext_state * 0x2545F4914F6CDD1DULL) >> 32);
    }
    uint32_t choose(uint32_t k) { return k ? next() % k : 0; }
    bool flag() { return next() & 1; }
    // true with probability num/den (0 on exhausted tape -> true only if num==den)
    bool chance(uint32_t num, uint32_t den) { return next() % den >= den - num; }
    int range(int lo, int hi) { return lo + int(choose(uint32_t(hi - lo + 1))); }
    // index chosen with the given integer weights; word 0 picks index 0
    int weighted(std::initializer_list<uint32_t> w)
    {
        uint32_t sum = 0;
        for (uint32_t x : w) sum += x;
        uint32_t v = choose(sum);
        int idx = 0;
        for (uint32_t x : w)
        {
            if (v < x) return idx;
            v -= x;
            ++idx;
        }
        return 0;
    }
};

inline uint64_t fnv1a(const std::string& s, uint64_t h = 1469598103934665603ULL)
{
    for (unsigned char c : s)
    {
        h ^= c;
        h *= 1099511628211ULL;
    }
    return h;
}
inline uint64_t mix64(uint64_t x)
{
    x ^= x >> 33;
    x *= 0xff51afd7ed558ccdULL;
    x ^= x >> 33;
    x *= 0xc4ceb9fe1a85ec53ULL;
    x ^= x >> 33;
    return x;
}

// What a property function tells the driver about the cases it ran.
struct Report
{
    bool frozen = false;  // set after the first failure so that shrinking runs do not inflate counts
    uint64_t evaluations = 0;
    std::unordered_set<uint64_t> nontrivial;  // fingerprints of distinct non-trivial cases (capped)
    size_t nontrivial_cap = 3000000;
    bool nontrivial_capped = false;
    std::map<std::string, uint64_t> classes;  // class histogram / counters
    std::map<std::string, std::vector<std::string>> samples;  // a few decoded cases per class
    std::string failure;  // human-readable description of the violation (last failing case)
    std::string failure_sig;  // short signature used to match known findings
    std::string decoded;  // decoded form of the current case (for replay files)

    void eval(uint64_t k = 1)
    {
        if (!frozen) evaluations += k;
    }
    void cls(const std::string& name, uint64_t k = 1)
    {
        if (!frozen) classes[name] += k;
    }
    void nontriv(uint64_t fp)
    {
        if (frozen) return;
        if (nontrivial.size() >= nontrivial_cap)
        {
            nontrivial_capped = true;
            return;
        }
        nontrivial.insert(fp);
    }
    // keeps the 1st, 2nd, 4th, 8th, ... occurrence of a class (the most recent `per_class` of those), so that samples are
    // spread over the run instead of being the degenerate size-0 cases rapidcheck starts with
    std::map<std::string, uint64_t> sample_seen;
    void sample(const std::string& klass, const std::string& s, size_t per_class = 3)
    {
        if (frozen) return;
        uint64_t n = ++sample_seen[klass];
        if (n & (n - 1)) return;
        auto& v = samples[klass];
        v.push_back(s);
        if (v.size() > per_class) v.erase(v.begin());
    }
    bool fail(const std::string& sig, const std::string& msg)
    {
        failure_sig = sig;
        failure = msg;
        return false;
    }
};

using PropFn = std::function<bool(Tape&, Report&)>;
