// C10 — libFuzzer target: coverage-guided mutation of the choice tape decoded by harness/session.h
// (structure-aware: the bytes are the tape words, so mutations change positions, games, limits and commands,
// never the well-formedness of the session).  Oracle: ASan / UBSan (fatal checks) / a hung engine.
#include "session.h"

#include <cstdlib>

std::map<std::string, PropEntry>& registry()
{
    static std::map<std::string, PropEntry> r;
    return r;
}
int g_tier = 1;
uint64_t g_seed = 1;
std::map<std::string, std::string> g_opts;

namespace
{
std::map<std::string, uint64_t> g_cls;
uint64_t g_execs = 0, g_boundary = 0;
std::string g_stats_path;
void dump_stats()
{
    if (g_stats_path.empty()) return;
    FILE* f = fopen(g_stats_path.c_str(), "w");
    if (!f) return;
    fprintf(f, "{\"execs\": %llu, \"boundary_sessions\": %llu, \"classes\": {", (unsigned long long)g_execs, (unsigned long long)g_boundary);
    bool first = true;
    for (auto& kv : g_cls)
    {
        fprintf(f, "%s\"%s\": %llu", first ? "" : ", ", kv.first.c_str(), (unsigned long long)kv.second);
        first = false;
    }
    fprintf(f, "}}\n");
    fclose(f);
}
}  // namespace

extern "C" int LLVMFuzzerInitialize(int*, char***)
{
    const char* td = getenv("VERIF_TMPDIR");
    g_opts["tmpdir"] = td ? td : "/tmp";
    const char* sp = getenv("VERIF_FUZZ_STATS");
    if (sp) g_stats_path = sp;
    const char* ex = getenv("VERIF_FUZZ_OPTS");  // "k=v,k=v"
    if (ex)
    {
        std::string s = ex;
        size_t i = 0;
        while (i < s.size())
        {
            size_t j = s.find(',', i);
            if (j == std::string::npos) j = s.size();
            std::string kv = s.substr(i, j - i);
            size_t eq = kv.find('=');
            if (eq != std::string::npos) g_opts[kv.substr(0, eq)] = kv.substr(eq + 1);
            i = j + 1;
        }
    }
    atexit(dump_stats);
    return 0;
}

extern "C" int LLVMFuzzerTestOneInput(const uint8_t* data, size_t size)
{
    std::vector<uint32_t> words(size / 4);
    for (size_t i = 0; i < words.size(); ++i)
        words[i] = uint32_t(data[4 * i]) | (uint32_t(data[4 * i + 1]) << 8) | (uint32_t(data[4 * i + 2]) << 16) | (uint32_t(data[4 * i + 3]) << 24);
    Tape t(words);
    sess::Stats st;
    bool ok = sess::run_session(t, st, nullptr, g_opts["tmpdir"]);
    ++g_execs;
    g_boundary += st.boundary;
    for (auto& kv : st.cls) g_cls[kv.first] += kv.second;
    if ((g_execs & 63) == 0) dump_stats();
    if (!ok)
    {
        fprintf(stderr, "C10 fuzz: engine stopped answering; session: %s\n", st.transcript.c_str());
        dump_stats();
        __builtin_trap();
    }
    return 0;
}
