// In-process UCI rig: Uci::loop() on a reader thread with std::cin / std::cout replaced by harness-owned stream buffers.
#pragma once
#include "uci.h"
#include "scrub.h"

#include <atomic>
#include <condition_variable>
#include <deque>
#include <functional>
#include <iostream>
#include <mutex>
#include <thread>

namespace rigns
{
using engine::Uci;
class InBuf : public std::streambuf
{
  public:
    void push(const std::string& s)
    {
        std::lock_guard<std::mutex> l(m);
        q.insert(q.end(), s.begin(), s.end());
        cv.notify_all();
    }
    uint64_t consumed_lines() { return lines_consumed.load(); }
    // end of input: getline in Uci::loop fails once the queue is drained
    void close()
    {
        std::lock_guard<std::mutex> l(m);
        closed = true;
        cv.notify_all();
    }

  protected:
    int_type underflow() override
    {
        std::unique_lock<std::mutex> l(m);
        cv.wait(l, [&] { return !q.empty() || closed; });
        if (q.empty()) return traits_type::eof();
        cur = q.front();
        q.pop_front();
        if (cur == '\n') ++lines_consumed;
        setg(&cur, &cur, &cur + 1);
        return traits_type::to_int_type(cur);
    }

  private:
    std::mutex m;
    std::condition_variable cv;
    std::deque<char> q;
    bool closed = false;
    char cur = 0;
    std::atomic<uint64_t> lines_consumed{0};
};

class OutBuf : public std::streambuf
{
  public:
    // wait until a line satisfying pred appears at index >= from; returns its index or -1 on timeout
    long wait_line(size_t from, const std::function<bool(const std::string&)>& pred, int timeout_ms)
    {
        std::unique_lock<std::mutex> l(m);
        auto deadline = std::chrono::steady_clock::now() + std::chrono::milliseconds(timeout_ms);
        size_t scanned = from;
        for (;;)
        {
            for (; scanned < lines.size(); ++scanned)
                if (pred(lines[scanned])) return long(scanned);
            if (cv.wait_until(l, deadline) == std::cv_status::timeout)
            {
                for (; scanned < lines.size(); ++scanned)
                    if (pred(lines[scanned])) return long(scanned);
                return -1;
            }
        }
    }
    size_t size()
    {
        std::lock_guard<std::mutex> l(m);
        return lines.size();
    }
    std::vector<std::string> snapshot(size_t from)
    {
        std::lock_guard<std::mutex> l(m);
        return std::vector<std::string>(lines.begin() + std::min(from, lines.size()), lines.end());
    }

  protected:
    int_type overflow(int_type c) override
    {
        if (c == traits_type::eof()) return c;
        std::lock_guard<std::mutex> l(m);
        put(char(c));
        return c;
    }
    std::streamsize xsputn(const char* s, std::streamsize n) override
    {
        std::lock_guard<std::mutex> l(m);
        for (std::streamsize i = 0; i < n; ++i) put(s[i]);
        return n;
    }

  private:
    void put(char c)
    {
        if (c == '\n')
        {
            lines.push_back(cur);
            cur.clear();
            cv.notify_all();
        }
        else
            cur += c;
    }
    std::mutex m;
    std::condition_variable cv;
    std::vector<std::string> lines;
    std::string cur;
};

struct Rig
{
    InBuf in;
    OutBuf out;
    std::thread reader;
    Uci* uci = nullptr;
    void start()
    {
        std::cin.rdbuf(&in);
        std::cout.rdbuf(&out);
        scrub::scrub_stack();
        uci = new Uci();
        reader = std::thread([this] {
            scrub::scrub_stack();
            uci->loop();
        });
        reader.detach();
    }
    void send(const std::string& line) { in.push(line + "\n"); }
};
inline Rig& rig()
{
    static Rig* r = nullptr;
    if (!r)
    {
        r = new Rig();
        r->start();
    }
    return *r;
}


inline bool is_bestmove(const std::string& l) { return l.rfind("bestmove", 0) == 0; }
}  // namespace rigns
