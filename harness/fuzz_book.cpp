// C19 — libFuzzer target: coverage-guided mutation of Polyglot book FILES.
// The input bytes are decoded into a book file record by record (structure-aware): a record is either kept as raw bytes
// (arbitrary key, move code and weight: exercises the loader only) or "pinned" to one of the pooled positions (its key
// field is replaced by that position's Polyglot key and its move field by the encoding of one of that position's legal
// moves, castling as king-takes-rook), so that look-ups are in the documented domain.  A trailing partial record is kept
// (truncated file).  Oracles, inside the target:
//   (records)  the loaded book holds exactly the complete 16-byte records of the file, per key and in file order;
//   (contains) contains(key) agrees with the file;
//   (best)     for a pooled position whose records are all pinned and have a positive weight sum: get_best_move returns the
//              decoded move of a maximal-weight record; get_random_move returns the decoded move of a positive-weight record.
// ASan / UBSan are active as well.
#include "../ref/refpolyglot.h"
#include "bridge.h"
#include "polyglot.h"
#include "registry.h"

#include <cstdlib>
#include <fstream>
#include <unistd.h>

using namespace engine;

struct VerifPeek
{
    static const std::map<uint64_t, std::vector<PolyglotBook::WeightedMove>>& records(const PolyglotBook& b) { return b._hashmap; }
};

std::map<std::string, PropEntry>& registry()
{
    static std::map<std::string, PropEntry> r;
    return r;
}
int g_tier = 1;
uint64_t g_seed = 1;
std::map<std::string, std::string> g_opts;

namespace
{
const char* POSITIONS[] = {
    "rnbqkbnr/pppppppp/8/8/8/8/PPPPPPPP/RNBQKBNR w KQkq - 0 1",
    "r3k2r/pppq1ppp/2n2n2/3pp3/3PP3/2N2N2/PPPQ1PPP/R3K2R w KQkq - 0 1",
    "r3k2r/pppq1ppp/2n2n2/3pp3/3PP3/2N2N2/PPPQ1PPP/R3K2R b KQkq - 0 1",
    "4k3/P6P/8/8/8/8/p6p/4K3 w - - 0 1",
    "4k3/P6P/8/8/8/8/p6p/4K3 b - - 0 1",
    "rnbqkbnr/ppp1p1pp/8/3pPp2/8/8/PPPP1PPP/RNBQKBNR w KQkq f6 0 3",
    "r3k2r/pppq1ppp/2n2n2/3pp3/3PP3/2N2N2/PPPQ1PPP/2KR3R b kq - 0 1",
    "r3k2r/pppq1ppp/2n2n2/3pp3/3PP3/2N2N2/PPPQ1PPP/R3K2R w KQq - 0 1",
};
constexpr int NPOS = 8;
struct Pooled
{
    ref::Pos p;
    uint64_t key;
    std::vector<ref::Move> legal;
};
std::vector<Pooled>& pool()
{
    static std::vector<Pooled> v;
    if (v.empty())
        for (int i = 0; i < NPOS; ++i)
        {
            Pooled e;
            ref::from_fen(POSITIONS[i], e.p);
            e.key = ref::polyglot_key(e.p);
            e.legal = ref::legal_moves(e.p);
            v.push_back(e);
        }
    return v;
}

uint16_t encode(const ref::Pos& p, const ref::Move& m)
{
    int from = m.from, to = m.to;
    if (ref::is_castle(p, m)) to = ref::SQ(ref::FL(to) == 6 ? 7 : 0, ref::RK(to));
    int promo = m.promo == 'n' ? 1 : m.promo == 'b' ? 2 : m.promo == 'r' ? 3 : m.promo == 'q' ? 4 : 0;
    return uint16_t((promo << 12) | (ref::RK(from) << 9) | (ref::FL(from) << 6) | (ref::RK(to) << 3) | ref::FL(to));
}
Move raw_move(uint16_t code)
{
    int to = ref::SQ(code & 7, (code >> 3) & 7), from = ref::SQ((code >> 6) & 7, (code >> 9) & 7);
    int promo = (code >> 12) & 7;
    PieceKind pk = promo ? PieceKind(PAWN + promo) : NO_PIECE_KIND;
    return create_promotion(Square(from), Square(to), pk);
}

uint64_t g_execs = 0, g_pinned_lookups = 0, g_truncated = 0, g_repeated_key = 0, g_zero_weight = 0, g_records = 0;
std::string g_stats_path;
void dump_stats()
{
    if (g_stats_path.empty()) return;
    FILE* f = fopen(g_stats_path.c_str(), "w");
    if (!f) return;
    fprintf(f, "{\"execs\": %llu, \"boundary_sessions\": %llu, \"classes\": {\"book:records\": %llu, \"book:pinned_lookups\": %llu, \"book:truncated_files\": %llu, \"book:repeated_key\": %llu, \"book:zero_weight_record\": %llu}}\n",
            (unsigned long long)g_execs, (unsigned long long)g_pinned_lookups, (unsigned long long)g_records, (unsigned long long)g_pinned_lookups, (unsigned long long)g_truncated,
            (unsigned long long)g_repeated_key, (unsigned long long)g_zero_weight);
    fclose(f);
}
[[noreturn]] void fail(const std::string& what, const std::string& bytes)
{
    fprintf(stderr, "C19 fuzz: %s\n book file (%zu bytes):", what.c_str(), bytes.size());
    for (size_t i = 0; i < bytes.size() && i < 512; ++i) fprintf(stderr, "%s%02x", i % 16 == 0 ? "\n  " : " ", (unsigned char)bytes[i]);
    fprintf(stderr, "\n");
    dump_stats();
    __builtin_trap();
}
}  // namespace

extern "C" int LLVMFuzzerInitialize(int*, char***)
{
    const char* td = getenv("VERIF_TMPDIR");
    g_opts["tmpdir"] = td ? td : "/tmp";
    const char* sp = getenv("VERIF_FUZZ_STATS");
    if (sp) g_stats_path = sp;
    br::init_engine();
    atexit(dump_stats);
    return 0;
}

extern "C" int LLVMFuzzerTestOneInput(const uint8_t* data, size_t size)
{
    std::vector<Pooled>& P = pool();
    // ---- decode the input into a book file
    std::string bytes;
    struct Rec
    {
        uint64_t key;
        uint16_t code, weight;
        int pinned;  // pooled position index or -1
    };
    std::vector<Rec> recs;
    size_t i = 0;
    for (; i + 17 <= size; i += 17)
    {
        uint8_t mode = data[i];
        const uint8_t* r = data + i + 1;
        Rec rec;
        rec.key = 0;
        for (int b = 0; b < 8; ++b) rec.key = (rec.key << 8) | r[b];
        rec.code = uint16_t((r[8] << 8) | r[9]);
        rec.weight = uint16_t((r[10] << 8) | r[11]);
        rec.pinned = -1;
        if (mode & 1)
        {
            int pi = (mode >> 1) % NPOS;
            rec.pinned = pi;
            rec.key = P[size_t(pi)].key;
            rec.code = encode(P[size_t(pi)].p, P[size_t(pi)].legal[rec.code % P[size_t(pi)].legal.size()]);
            if (mode & 0x80) rec.weight = uint16_t(rec.weight % 4);  // small weights incl. 0
        }
        for (int b = 7; b >= 0; --b) bytes += char((rec.key >> (8 * b)) & 0xFF);
        bytes += char(rec.code >> 8);
        bytes += char(rec.code & 0xFF);
        bytes += char(rec.weight >> 8);
        bytes += char(rec.weight & 0xFF);
        bytes.append(reinterpret_cast<const char*>(r + 12), 4);
        recs.push_back(rec);
    }
    size_t tail = std::min<size_t>(size - i, 15);  // a partial record at the end of the file
    bytes.append(reinterpret_cast<const char*>(data + i), tail);
    if (tail) ++g_truncated;
    ++g_execs;
    g_records += recs.size();

    static int counter = 0;
    std::string path = g_opts["tmpdir"] + "/verif-fuzzbook-" + std::to_string(getpid()) + "-" + std::to_string(counter++ & 7) + ".bin";
    {
        std::ofstream o(path, std::ios::binary | std::ios::trunc);
        o.write(bytes.data(), std::streamsize(bytes.size()));
    }
    PolyglotBook book(path, 12345u + uint32_t(size));
    unlink(path.c_str());

    // ---- (records)
    std::map<uint64_t, std::vector<std::pair<Move, int>>> want;
    for (auto& r : recs) want[r.key].push_back({raw_move(r.code), int(r.weight)});
    for (auto& kv : want)
        if (kv.second.size() > 1)
        {
            ++g_repeated_key;
            break;
        }
    const auto& got = VerifPeek::records(book);
    if (got != want)
    {
        size_t n = 0;
        for (auto& kv : got) n += kv.second.size();
        fail("book:load — the loaded book differs from the file's complete 16-byte records: file has " + std::to_string(recs.size()) + " complete records, book holds " + std::to_string(n) +
                 " under " + std::to_string(got.size()) + " keys (expected " + std::to_string(want.size()) + " keys)",
             bytes);
    }
    // ---- (contains)
    for (auto& e : P)
        if (book.contains(e.key) != (want.count(e.key) > 0)) fail("book:contains disagrees with the file", bytes);
    if (book.contains(0x0123456789abcdefULL) != (want.count(0x0123456789abcdefULL) > 0)) fail("book:contains disagrees with the file (absent key)", bytes);
    // ---- (best) / (random) for pooled positions whose records are all pinned
    for (int pi = 0; pi < NPOS; ++pi)
    {
        const Pooled& e = P[size_t(pi)];
        auto it = want.find(e.key);
        if (it == want.end()) continue;
        bool allPinned = true;
        long sum = 0;
        int maxw = 0;
        std::vector<std::pair<std::string, int>> moves;
        for (auto& r : recs)
            if (r.key == e.key)
            {
                allPinned &= r.pinned == pi;
                sum += r.weight;
                maxw = std::max(maxw, int(r.weight));
                if (r.weight == 0) ++g_zero_weight;
                if (r.pinned == pi)
                {
                    // the legal move this record was pinned to
                    for (auto& m : e.legal)
                        if (encode(e.p, m) == r.code)
                        {
                            moves.push_back({m.uci(), int(r.weight)});
                            break;
                        }
                }
            }
        if (!allPinned || sum <= 0 || sum >= 65536 * 4) continue;
        ++g_pinned_lookups;
        Position pos(ref::to_fen(e.p));
        std::string best = pos.uci(book.get_best_move(e.key, pos));
        bool okBest = false;
        for (auto& mw : moves) okBest |= (mw.second == maxw && mw.first == best);
        if (!okBest) fail("book:best — get_best_move returned " + best + " which is not a maximal-weight record of the key of " + ref::to_fen(e.p), bytes);
        for (int k = 0; k < 3; ++k)
        {
            std::string rnd = pos.uci(book.get_random_move(e.key, pos));
            bool okRnd = false;
            for (auto& mw : moves) okRnd |= (mw.second > 0 && mw.first == rnd);
            if (!okRnd) fail("book:random — get_random_move returned " + rnd + " which is not a positive-weight record of the key of " + ref::to_fen(e.p), bytes);
        }
    }
    if ((g_execs & 255) == 0) dump_stats();
    return 0;
}
