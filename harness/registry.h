// Property registry shared by the property TUs and the drivers.
#pragma once
#include "../gen/tape.h"
#include <chrono>
#include <map>
#include <string>

struct PropEntry
{
    PropFn fn;
    void (*init)() = nullptr;
};
std::map<std::string, PropEntry>& registry();
extern int g_tier;                               // 0 quick, 1 thorough
extern uint64_t g_seed;
extern std::map<std::string, std::string> g_opts;  // --opt k=v (also restored from replay files)

inline std::string opt(const std::string& k, const std::string& dflt = "")
{
    auto it = g_opts.find(k);
    return it == g_opts.end() ? dflt : it->second;
}
inline long opt_int(const std::string& k, long dflt)
{
    auto it = g_opts.find(k);
    return it == g_opts.end() ? dflt : atol(it->second.c_str());
}

struct Registrar
{
    Registrar(const char* id, PropFn fn, void (*init)() = nullptr) { registry()[id] = PropEntry{fn, init}; }
};
#define REGISTER_PROP(id, fn, init) static Registrar registrar_##fn(id, fn, init)
