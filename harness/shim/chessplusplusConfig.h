// stand-in for the CMake-generated header (only uci.cpp uses it)
#define ENGINE_NAME "chessplusplus"
#define CHESSPLUSPLUS_VERSION "verif"
