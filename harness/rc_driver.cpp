// The only translation unit that includes rapidcheck.  Runs one registered property over tapes
// generated (and shrunk) by rapidcheck, or replays a saved tape without rapidcheck.
#include "registry.h"
#include "scrub.h"

#include <rapidcheck.h>

#include <csignal>
#include <cstdlib>
#include <cstring>
#include <fstream>
#include <iostream>
#include <sstream>
#include <unistd.h>

#if defined(__has_feature)
#if __has_feature(address_sanitizer) || __has_feature(thread_sanitizer)
#define HAVE_SANITIZER_CB 1
extern "C" void __sanitizer_set_death_callback(void (*)(void));
#endif
#endif

std::map<std::string, PropEntry>& registry()
{
    static std::map<std::string, PropEntry> r;
    return r;
}
int g_tier = 0;
uint64_t g_seed = 1;
std::map<std::string, std::string> g_opts;

static std::vector<uint32_t> g_current_tape;
static std::string g_replay_out;
static std::string g_prop;
static Report* g_rep = nullptr;

static std::string json_escape(const std::string& s)
{
    std::string o;
    for (unsigned char c : s)
    {
        if (c == '"') o += "\\\"";
        else if (c == '\\') o += "\\\\";
        else if (c == '\n') o += "\\n";
        else if (c == '\t') o += "\\t";
        else if (c < 0x20 || c >= 0x7f)
        {
            char b[8];
            snprintf(b, sizeof b, "\\u%04x", c);
            o += b;
        }
        else o += char(c);
    }
    return o;
}

static void write_replay(const std::string& path, const std::vector<uint32_t>& tape, const std::string& sig,
                         const std::string& failure, const std::string& decoded)
{
    if (path.empty()) return;
    FILE* f = fopen(path.c_str(), "w");
    if (!f) return;
    fprintf(f, "# property %s\n", g_prop.c_str());
    fprintf(f, "# tier %d\n", g_tier);
    for (auto& kv : g_opts) fprintf(f, "# opt %s=%s\n", kv.first.c_str(), kv.second.c_str());
    std::string d = decoded, fl = failure;
    for (auto& c : d) if (c == '\n') c = ' ';
    fprintf(f, "# signature %s\n", sig.c_str());
    fprintf(f, "# decoded %s\n", d.c_str());
    std::istringstream is(fl);
    std::string line;
    while (std::getline(is, line)) fprintf(f, "# failure %s\n", line.c_str());
    fprintf(f, "tape");
    for (uint32_t w : tape) fprintf(f, " %u", w);
    fprintf(f, "\n");
    fclose(f);
}

static void crash_dump()
{
    static bool once = false;
    if (once) return;
    once = true;
    write_replay(g_replay_out, g_current_tape, "crash", "process died (sanitizer report or signal) while running this tape; see stderr",
                 g_rep ? g_rep->decoded : "");
}
static void on_signal(int sig)
{
    crash_dump();
    signal(sig, SIG_DFL);
    raise(sig);
}

static void write_report(const std::string& path, const Report& rep, bool ok, uint64_t cases, double wall)
{
    if (path.empty()) return;
    std::ofstream o(path);
    o << "{\n \"property\": \"" << g_prop << "\",\n \"ok\": " << (ok ? "true" : "false") << ",\n \"cases\": " << cases
      << ",\n \"evaluations\": " << rep.evaluations << ",\n \"distinct_nontrivial\": " << rep.nontrivial.size()
      << ",\n \"nontrivial_capped\": " << (rep.nontrivial_capped ? "true" : "false") << ",\n \"wall_s\": " << wall
      << ",\n \"failure_sig\": \"" << json_escape(rep.failure_sig) << "\",\n \"failure\": \"" << json_escape(rep.failure)
      << "\",\n \"classes\": {";
    bool first = true;
    for (auto& kv : rep.classes)
    {
        o << (first ? "" : ",") << "\n  \"" << json_escape(kv.first) << "\": " << kv.second;
        first = false;
    }
    o << "\n },\n \"samples\": {";
    first = true;
    for (auto& kv : rep.samples)
    {
        o << (first ? "" : ",") << "\n  \"" << json_escape(kv.first) << "\": [";
        for (size_t i = 0; i < kv.second.size(); ++i) o << (i ? ", " : "") << "\"" << json_escape(kv.second[i]) << "\"";
        o << "]";
        first = false;
    }
    o << "\n }\n}\n";
}

static void write_fps(const std::string& path, const Report& rep)
{
    if (path.empty()) return;
    FILE* f = fopen(path.c_str(), "wb");
    if (!f) return;
    std::vector<uint64_t> v(rep.nontrivial.begin(), rep.nontrivial.end());
    if (!v.empty()) fwrite(v.data(), 8, v.size(), f);
    fclose(f);
}

static bool read_tape(const std::string& path, std::vector<uint32_t>& tape)
{
    std::ifstream in(path);
    if (!in) return false;
    std::string line;
    while (std::getline(in, line))
    {
        if (line.rfind("# tier ", 0) == 0) g_tier = atoi(line.c_str() + 7);
        if (line.rfind("# opt ", 0) == 0)
        {
            std::string kv = line.substr(6);
            auto eq = kv.find('=');
            if (eq != std::string::npos && !g_opts.count(kv.substr(0, eq))) g_opts[kv.substr(0, eq)] = kv.substr(eq + 1);
        }
        if (line.rfind("tape", 0) == 0)
        {
            std::istringstream is(line.substr(4));
            uint64_t w;
            while (is >> w) tape.push_back(uint32_t(w));
            return true;
        }
    }
    return false;
}

int main(int argc, char** argv)
{
    std::string out, fpout, replay;
    uint64_t cases = 100, max_size = 100;
    double scale = 4.0;
    bool merge = false;
    std::vector<std::string> rest;
    for (int i = 1; i < argc; ++i)
    {
        std::string a = argv[i];
        auto val = [&]() -> std::string { return i + 1 < argc ? argv[++i] : ""; };
        if (a == "--prop") g_prop = val();
        else if (a == "--cases") cases = strtoull(val().c_str(), 0, 10);
        else if (a == "--max-size") max_size = strtoull(val().c_str(), 0, 10);
        else if (a == "--seed") g_seed = strtoull(val().c_str(), 0, 10);
        else if (a == "--scale") scale = atof(val().c_str());
        else if (a == "--tier") g_tier = val() == "thorough" ? 1 : 0;
        else if (a == "--out") out = val();
        else if (a == "--fp") fpout = val();
        else if (a == "--replay-out") g_replay_out = val();
        else if (a == "--replay") replay = val();
        else if (a == "--opt") { std::string kv = val(); auto eq = kv.find('='); g_opts[kv.substr(0, eq)] = eq == std::string::npos ? "1" : kv.substr(eq + 1); }
        else if (a == "--merge-fp") merge = true;
        else if (a == "--list") { for (auto& kv : registry()) printf("%s\n", kv.first.c_str()); return 0; }
        else rest.push_back(a);
    }
    if (merge)
    {
        // count distinct 64-bit fingerprints over several files
        std::vector<uint64_t> all;
        for (auto& p : rest)
        {
            FILE* f = fopen(p.c_str(), "rb");
            if (!f) continue;
            uint64_t buf[4096];
            size_t n;
            while ((n = fread(buf, 8, 4096, f)) > 0) all.insert(all.end(), buf, buf + n);
            fclose(f);
        }
        std::sort(all.begin(), all.end());
        all.erase(std::unique(all.begin(), all.end()), all.end());
        printf("%zu\n", all.size());
        return 0;
    }
    auto it = registry().find(g_prop);
    if (it == registry().end())
    {
        fprintf(stderr, "unknown property %s\n", g_prop.c_str());
        return 2;
    }
    PropFn fn = it->second.fn;
    if (it->second.init) it->second.init();

#ifdef HAVE_SANITIZER_CB
    __sanitizer_set_death_callback(crash_dump);
#endif
    signal(SIGSEGV, on_signal);
    signal(SIGABRT, on_signal);
    signal(SIGBUS, on_signal);
    signal(SIGFPE, on_signal);
    signal(SIGILL, on_signal);

    Report rep;
    g_rep = &rep;
    auto t0 = std::chrono::steady_clock::now();

    if (!replay.empty())
    {
        std::vector<uint32_t> tape;
        if (!read_tape(replay, tape))
        {
            fprintf(stderr, "cannot read tape from %s\n", replay.c_str());
            return 2;
        }
        g_current_tape = tape;
        Tape t(tape);
        scrub::scrub_stack();
        bool ok = fn(t, rep);
        if (!ok)
        {
            printf("REPLAY-FAIL property=%s sig=%s\n%s\n", g_prop.c_str(), rep.failure_sig.c_str(), rep.failure.c_str());
            if (!rep.decoded.empty()) printf("decoded: %s\n", rep.decoded.c_str());
            return 1;
        }
        printf("REPLAY-PASS property=%s\n", g_prop.c_str());
        return 0;
    }

    {
        std::ostringstream ps;
        ps << "seed=" << g_seed << " max_success=" << cases << " max_size=" << max_size << " max_discard_ratio=100";
        setenv("RC_PARAMS", ps.str().c_str(), 1);
    }
    std::vector<uint32_t> last_fail;
    std::string last_sig, last_msg, last_decoded;
    uint64_t ran = 0;
    // The first case of a process is special for anything that is initialised lazily (a function-local static set from the
    // first call's arguments, a table filled on first use): rapidcheck always starts with the empty tape, so without this
    // every process would make the same degenerate first call.  One full-size case whose words are a function of the shard
    // seed runs first; it is an ordinary case (same property function, same oracle) and replays alone in a fresh process.
    if (opt("no_first_case") != "1")
    {
        std::vector<uint32_t> first(size_t(std::max(64.0, 100.0 * double(scale))));
        uint64_t x = (g_seed + 1) * 0x9E3779B97F4A7C15ULL;
        for (auto& w : first)
        {
            x ^= x >> 12, x ^= x << 25, x ^= x >> 27;
            w = uint32_t((x * 0x2545F4914F6CDD1DULL) >> 32);
        }
        g_current_tape = first;
        Tape t(first);
        rep.decoded.clear();
        scrub::scrub_stack();
        bool r = fn(t, rep);
        ++ran;
        rep.cls("driver:full_size_first_case");
        if (!r)
        {
            double wall0 = std::chrono::duration<double>(std::chrono::steady_clock::now() - t0).count();
            write_replay(g_replay_out, first, rep.failure_sig, rep.failure, rep.decoded);
            write_report(out, rep, false, ran, wall0);
            write_fps(fpout, rep);
            return 1;
        }
    }
    auto tapeGen = rc::gen::scale(scale, rc::gen::container<std::vector<uint32_t>>(rc::gen::arbitrary<uint32_t>()));
    std::chrono::steady_clock::time_point shrink_deadline;
    const double shrink_seconds = double(opt_int("shrink_seconds", 25));
    bool ok = rc::check(g_prop, [&]() {
        std::vector<uint32_t> tape = *tapeGen;
        // bounded shrinking: once the budget is used up every further shrink candidate "passes" without being run,
        // so rapidcheck settles on the smallest failing tape found so far
        if (rep.frozen && std::chrono::steady_clock::now() > shrink_deadline) return;
        g_current_tape = tape;
        Tape t(tape);
        rep.decoded.clear();
        scrub::scrub_stack();
        bool r = fn(t, rep);
        if (!rep.frozen) ++ran;
        if (!rep.frozen && !rep.decoded.empty()) rep.sample("generated_case", rep.decoded.substr(0, 600), 3);
        if (!r)
        {
            if (!rep.frozen)
                shrink_deadline = std::chrono::steady_clock::now() + std::chrono::milliseconds(int64_t(shrink_seconds * 1000));
            rep.frozen = true;
            last_fail = tape;
            last_sig = rep.failure_sig;
            last_msg = rep.failure;
            last_decoded = rep.decoded;
        }
        RC_ASSERT(r);
    });
    double wall = std::chrono::duration<double>(std::chrono::steady_clock::now() - t0).count();
    if (!ok)
    {
        rep.failure_sig = last_sig;
        rep.failure = last_msg;
        write_replay(g_replay_out, last_fail, last_sig, last_msg, last_decoded);
    }
    write_report(out, rep, ok, ran, wall);
    write_fps(fpout, rep);
    return ok ? 0 : 1;
}
