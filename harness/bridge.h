// Glue between the engine under test and the oracle / generators.
#pragma once
#include "../gen/posgen.h"
#include "../gen/tape.h"
#include "../ref/refchess.h"

#include "bitboard.h"
#include "endgame.h"
#include "movegen.h"
#include "position.h"
#include "zobrist_hash.h"
#include "verif_hooks.h"
#include "registry.h"

#include <map>
#include <set>
#include <string>
#include <vector>

namespace br
{
// seeded: Zobrist keys come from mt19937_64(zseed) (hook H5) so that cases whose construction depends on the keys
// (cache-slot collisions, table indices) replay identically in a fresh process.  C04 runs on the engine's own keys.
inline void init_engine(bool seeded = true)
{
    static bool done = false;
    if (done) return;
    done = true;
    if (seeded) engine::verif::zobrist_seed = uint64_t(opt_int("zseed", 1)) * 0x9E3779B97F4A7C15ULL + 12345;
    // entropy window (hex mask): every Zobrist key is zero outside it, so all positions agree on those key bits while
    // their full keys still differ; exposes tables that index or verify with only part of the key
    if (seeded && !opt("zmask").empty())
    {
        engine::verif::zobrist_mask = strtoull(opt("zmask").c_str(), nullptr, 16);
        // outside the window every key has the same non-zero bits, so a position key is 0 or that constant there depending
        // on the parity of the number of keys XORed into it (an all-zero truncated key would look like an empty table slot)
        engine::verif::zobrist_fill = 0xA5C3E1B2D4F60789ULL;
    }
    engine::move_bitboards::init();
    engine::zobrist::init();
    engine::bitbase::init();
    engine::endgame::init();
}

struct EMoves
{
    std::vector<engine::Move> raw;
    std::vector<std::string> uci;  // parallel to raw
};

inline EMoves engine_moves(const engine::Position& pos)
{
    EMoves r;
    engine::Move buf[engine::MAX_MOVES];
    engine::Move* end = engine::generate_moves(pos, pos.color(), buf);
    for (engine::Move* it = buf; it != end; ++it)
    {
        r.raw.push_back(*it);
        r.uci.push_back(pos.uci(*it));
    }
    return r;
}

inline engine::Position from_fen(const ref::Pos& p) { return engine::Position(ref::to_fen(p)); }

// the way Uci::position_command builds a position: FEN, then parse_uci + do_move per token
inline engine::Position replay(const gen::Root& r)
{
    engine::Position pos(ref::to_fen(r.start));
    for (const auto& m : r.moves) pos.do_move(pos.parse_uci(m.uci()));
    return pos;
}

inline std::string join(const std::vector<std::string>& v)
{
    std::string s;
    for (auto& x : v) s += (s.empty() ? "" : " ") + x;
    return s;
}

inline std::vector<std::string> uci_list(const std::vector<ref::Move>& ms)
{
    std::vector<std::string> v;
    for (auto& m : ms) v.push_back(m.uci());
    return v;
}

}  // namespace br
