// C06 — `stop` is never lost; `isready` is answered during a search; stop signalling is race-free.
// An in-process Uci::loop runs on a reader thread with std::cin / std::cout replaced by harness-owned stream buffers.
// Deterministic half: the search thread is parked at a generated schedule point (hook callback), the controller sends
// `stop` + `isready`, waits for `readyok`, releases the thread and bounds the number of further node visits until `bestmove`.
// Race half (TSan flavour, prop "C06race"): the same sessions free-running; ThreadSanitizer is the oracle.
#include "bridge.h"
#include "registry.h"
#include "ucirig.h"
#include "verif_hooks.h"

#include <atomic>
#include <condition_variable>
#include <deque>
#include <iostream>
#include <mutex>
#include <thread>

using namespace engine;

namespace
{
using rigns::Rig;
using rigns::rig;

// ---- schedule control shared with the hook callback (search thread)
struct Sched
{
    std::atomic<uint64_t> visits{0};
    std::atomic<int> park_point{-1};        // verif::Point or -1
    std::atomic<uint64_t> park_visit{0};    // for NODE: park at this visit number
    std::atomic<int> park_iter{0};          // for ITER_END: park after this many iterations
    std::atomic<int> iters{0};
    std::atomic<bool> armed{false};
    std::atomic<bool> parked{false};
    std::atomic<bool> release{false};
    std::atomic<bool> counting_only{false};
};
Sched& sched()
{
    static Sched s;
    return s;
}

void sched_cb(int point, Search*)
{
    Sched& S = sched();
    uint64_t v = 0;
    if (point == verif::NODE || point == verif::QNODE) v = S.visits.fetch_add(1, std::memory_order_relaxed) + 1;
    if (S.counting_only.load(std::memory_order_relaxed)) return;
    int it = 0;
    if (point == verif::ITER_END) it = S.iters.fetch_add(1) + 1;
    if (!S.armed.load(std::memory_order_acquire)) return;
    int pp = S.park_point.load();
    bool hit = false;
    if (pp == verif::NODE)
        hit = (point == verif::NODE || point == verif::QNODE) && v == S.park_visit.load();
    else if (pp == verif::ITER_END)
        hit = point == verif::ITER_END && it == S.park_iter.load();
    else
        hit = point == pp;
    if (!hit) return;
    S.armed.store(false);
    S.parked.store(true, std::memory_order_release);
    while (!S.release.load(std::memory_order_acquire)) std::this_thread::sleep_for(std::chrono::microseconds(20));
    S.parked.store(false, std::memory_order_release);
}

using rigns::is_bestmove;

const char* point_name(int p)
{
    switch (p)
    {
    case verif::THREAD_START: return "thread_start";
    case verif::GO_ENTRY: return "go_entry";
    case verif::GO_AFTER_INIT: return "go_after_init";
    case verif::GO_AFTER_RESET: return "go_after_reset";
    case verif::NODE: return "node_visit";
    case verif::ITER_END: return "iteration_end";
    case verif::BEFORE_BESTMOVE: return "before_bestmove";
    }
    return "?";
}

std::string pick_position(Tape& t, Report& rep)
{
    // many hanging queens: a single quiescence search runs for 10^5..10^6 node visits, so a stop flag that is only
    // polled by the full-width search would not be seen for a long time
    if (t.chance(1, 4))
    {
        rep.cls("c06:explosive_position");
        if (t.chance(1, 2))
        {
            // as dense as the material rule allows (nine queens a side, no pawns): the quiescence search below a SINGLE
            // frontier node runs for far more than 10^5 visits, so "the stop is only seen when this quiescence search
            // returns" is distinguishable from "the stop is seen at the next poll" whatever the polling period is
            for (int attempt = 0; attempt < 4; ++attempt)
            {
                ref::Pos p;
                gen::place_kings(t, p, false);
                for (int side = 0; side < 2; ++side)
                    for (int i = 0; i < 9; ++i)
                    {
                        int sq = gen::free_square(t, p, false);
                        if (sq >= 0) p.b[sq] = side ? 'q' : 'Q';
                    }
                p.wtm = t.flag();
                gen::repair_not_to_move_check(p);
                if (ref::domain_violation(p).empty() && ref::legal_moves(p).size() >= 2 && ref::count(p, 'Q') + ref::count(p, 'q') >= 12)
                {
                    rep.cls("c06:dense_queens_position");
                    return ref::to_fen(p);
                }
            }
        }
        if (t.flag())
            for (int i = 0; i < 6; ++i)
            {
                ref::Pos p = gen::gen_fen(t, &rep, 4);
                int queens = ref::count(p, 'Q') + ref::count(p, 'q');
                if (queens >= 8 && ref::legal_moves(p).size() >= 2) return ref::to_fen(p);
            }
        return "k7/8/1r1q1r1q/b1q1n1q1/1Q1N1Q1B/Q1R1Q1R1/8/7K w - - 0 1";
    }
    for (int i = 0; i < 4; ++i)
    {
        gen::Root r = gen::gen_root(t, &rep, 40);
        if (ref::legal_moves(r.cur).size() >= 2 && !ref::insufficient_material(r.cur) && r.cur.half < 90) return ref::to_fen(r.cur);
    }
    return ref::to_fen(ref::startpos());
}

// Unwinding after a seen stop: every node on the stack makes at most ~3 further calls per remaining move, each of which returns
// at once.  With realistic stacks (main search <= ~10 plies x <= 40 moves, quiescence <= 39 plies x captures only) that is a few
// thousand visits; measured on the unchanged tree: <= 100 visits in 99% of schedules, maximum below 2,000.  The bound leaves a
// factor of ten on top of the measured maximum.
const long VISIT_BOUND = 45000;  // one full period of the engine's own limit poll (40,960 visits) plus unwinding: "as prompt as a time limit"

// Free-running trials: no parking.  go infinite, let the search run for a generated number of node visits, then stop.  The
// stop must be honoured wherever it lands (also in windows between the hook points).  The bound is counted from the moment the
// reader thread has provably processed the stop (readyok for an isready sent after it), so scheduling delays cannot fail it.
bool c06_free_running(Tape& t, Report& rep)
{
    Rig& R = rig();
    Sched& S = sched();
    verif::virtual_clock = false;
    S.counting_only = true;
    verif::callback = &sched_cb;
    std::string fen = pick_position(t, rep);
    int trials = 10 + int(t.choose(30));
    R.send("ucinewgame");
    R.send("position fen " + fen);
    for (int i = 0; i < trials; ++i)
    {
        uint64_t k = t.chance(1, 4) ? 0 : 1 + t.choose(4000);
        auto tt0 = std::chrono::steady_clock::now();
        size_t mark = R.out.size();
        S.visits.store(0, std::memory_order_relaxed);
        R.send("go infinite");
        auto t0 = std::chrono::steady_clock::now();
        bool endedAlone = false;
        for (int spin = 0; S.visits.load(std::memory_order_relaxed) < k && std::chrono::steady_clock::now() - t0 < std::chrono::seconds(10); ++spin)
        {
            // the engine ends even an infinite search by itself on a mate score: nothing to stop then
            if ((spin & 63) == 63 && R.out.wait_line(mark, rigns::is_bestmove, 0) >= 0) { endedAlone = true; break; }
            std::this_thread::sleep_for(std::chrono::microseconds(30));
        }
        size_t m2 = R.out.size();
        R.send("stop");
        R.send("isready");
        rep.eval();
        rep.cls(endedAlone ? "c06:free_running_search_ended_by_itself" : "c06:free_running_trial");
        std::string desc = "position fen " + fen + " ; go infinite ; (free running, stop after >= " + std::to_string(k) + " visits, trial " + std::to_string(i) + ")";
        rep.decoded = desc;
        if (R.out.wait_line(m2, [](const std::string& l) { return l == "readyok"; }, 30000) < 0)
            return rep.fail("stop:no_readyok_during_search", "isready after stop was not answered\n " + desc);
        uint64_t base = S.visits.load(std::memory_order_relaxed);  // the stop has been processed by now
        bool got = false, lost = false;
        auto t1 = std::chrono::steady_clock::now();
        for (;;)
        {
            if (R.out.wait_line(mark, rigns::is_bestmove, 1) >= 0) { got = true; break; }
            if (S.visits.load(std::memory_order_relaxed) - base > uint64_t(VISIT_BOUND)) { lost = true; break; }
            if (std::chrono::steady_clock::now() - t1 > std::chrono::seconds(120)) break;
        }
        if (!got)
        {
            uint64_t further = S.visits.load(std::memory_order_relaxed) - base;
            R.send("stop");
            bool recovered = R.out.wait_line(mark, rigns::is_bestmove, 60000) >= 0;
            if (lost)
                return rep.fail("stop:lost:free_running", "a stop sent to a free-running search was lost: " + std::to_string(further) + " node visits after the stop had been processed without a bestmove (bound " +
                                                              std::to_string(VISIT_BOUND) + "); a second stop " + (recovered ? "ended the search" : "was ignored too") + "\n " + desc);
            rep.cls("c06:inconclusive_no_bestmove_in_120s_without_visits");
            if (!recovered) _exit(3);
            return true;
        }
        {
            auto ms = std::chrono::duration_cast<std::chrono::milliseconds>(std::chrono::steady_clock::now() - tt0).count();
            rep.cls(ms < 20 ? "c06:trial_wall_lt_20ms" : ms < 200 ? "c06:trial_wall_lt_200ms" : ms < 2000 ? "c06:trial_wall_lt_2s" : "c06:trial_wall_ge_2s");
        }
    }
    rep.nontriv(fnv1a(fen + std::to_string(trials)));
    return true;
}

bool prop_C06(Tape& t, Report& rep)
{
    br::init_engine();
    if (t.chance(1, 3)) return c06_free_running(t, rep);
    Rig& R = rig();
    Sched& S = sched();
    verif::virtual_clock = false;
    verif::callback = &sched_cb;
    S.counting_only = false;

    std::string fen = pick_position(t, rep);
    const bool explosivePos = fen.find('/') != std::string::npos && (std::count(fen.begin(), fen.end(), 'Q') + std::count(fen.begin(), fen.end(), 'q')) >= 8;
    int form = t.weighted({5, 2, 2});  // infinite, depth, movetime
    std::string go = form == 0 ? "go infinite" : form == 1 ? "go depth " + std::to_string(4 + t.choose(3)) : "go movetime 20000";
    static const int POINTS[] = {verif::THREAD_START, verif::GO_ENTRY, verif::GO_AFTER_INIT, verif::GO_AFTER_RESET, verif::NODE, verif::NODE, verif::NODE, verif::ITER_END, verif::BEFORE_BESTMOVE};
    int pp = POINTS[t.choose(9)];
    uint64_t k = t.chance(1, 2) ? 1 + t.choose(60) : 1 + t.choose(100000);
    int iterN = 1 + int(t.choose(3));
    if (explosivePos)
    {
        // stop in the middle of a huge quiescence search
        pp = verif::NODE;
        k = 1000 + t.choose(150000);
        form = 0;
        go = "go infinite";
    }
    if (pp == verif::BEFORE_BESTMOVE && form == 0) go = "go depth " + std::to_string(3 + t.choose(2));  // an infinite search never gets there by itself
    bool extraIsready = t.chance(1, 3);
    std::string sched_desc = std::string("park@") + point_name(pp) + (pp == verif::NODE ? "#" + std::to_string(k) : pp == verif::ITER_END ? "#" + std::to_string(iterN) : "");
    std::string desc = "position fen " + fen + " ; " + go + " ; " + sched_desc + " ; stop ; isready";
    rep.decoded = desc;

    size_t mark = R.out.size();
    R.send("ucinewgame");
    R.send("position fen " + fen);
    S.visits = 0;
    S.iters = 0;
    S.park_point = pp;
    S.park_visit = k;
    S.park_iter = iterN;
    S.release = false;
    S.parked = false;
    S.armed.store(true, std::memory_order_release);
    R.send(go);
    rep.eval();

    // wait until the search thread is parked, or the search ends by itself
    auto t0 = std::chrono::steady_clock::now();
    bool parked = false, finishedAlone = false;
    for (;;)
    {
        if (S.parked.load(std::memory_order_acquire)) { parked = true; break; }
        if (R.out.wait_line(mark, is_bestmove, 0) >= 0) { finishedAlone = true; break; }
        if (std::chrono::steady_clock::now() - t0 > std::chrono::seconds(60)) break;
        std::this_thread::sleep_for(std::chrono::microseconds(200));
    }
    auto cleanup = [&]() {
        S.armed = false;
        S.release = true;
        R.send("stop");
        R.out.wait_line(mark, is_bestmove, 30000);
    };
    if (!parked && !finishedAlone)
    {
        cleanup();
        rep.cls("c06:inconclusive_park_point_not_reached_in_60s");
        return true;
    }
    if (finishedAlone)
    {
        // the search ended before the park point: stop after the last iteration must be harmless, isready still answered
        S.armed = false;
        size_t m2 = R.out.size();
        R.send("stop");
        R.send("isready");
        if (R.out.wait_line(m2, [](const std::string& l) { return l == "readyok"; }, 20000) < 0)
            return rep.fail("stop:no_readyok", "isready after a finished search was not answered\n " + desc);
        std::vector<std::string> after = R.out.snapshot(m2);
        for (auto& l : after)
            if (is_bestmove(l)) return rep.fail("stop:second_bestmove", "a second bestmove was printed for one go\n " + desc);
        rep.cls("c06:stop_after_search_finished");
        rep.nontriv(fnv1a(desc));
        return true;
    }
    // parked: deliver stop (+ isready) now
    uint64_t visitsAtPark = S.visits.load();
    size_t m2 = R.out.size();
    R.send("stop");
    R.send("isready");
    long ro = R.out.wait_line(m2, [](const std::string& l) { return l == "readyok"; }, 20000);
    if (ro < 0)
    {
        cleanup();
        return rep.fail("stop:no_readyok_during_search", "isready was not answered while a search was running (parked at " + sched_desc + ")\n " + desc);
    }
    if (extraIsready)
    {
        size_t m3 = R.out.size();
        R.send("isready");
        if (R.out.wait_line(m3, [](const std::string& l) { return l == "readyok"; }, 20000) < 0)
        {
            cleanup();
            return rep.fail("stop:no_readyok_during_search", "second isready not answered\n " + desc);
        }
    }
    rep.cls(std::string("c06:stop_delivered_at_") + point_name(pp));
    if (pp == verif::NODE && k <= 60) rep.cls("c06:stop_within_first_60_visits");
    rep.nontriv(fnv1a(sched_desc + fen + go));
    rep.sample(std::string("c06:") + point_name(pp), desc, 1);
    // release the search thread and bound the further node visits until bestmove
    S.release.store(true, std::memory_order_release);
    bool got = false, lost = false;
    auto t1 = std::chrono::steady_clock::now();
    for (;;)
    {
        if (R.out.wait_line(mark, is_bestmove, 1) >= 0) { got = true; break; }
        uint64_t further = S.visits.load() - visitsAtPark;
        if (further > uint64_t(VISIT_BOUND)) { lost = true; break; }
        if (std::chrono::steady_clock::now() - t1 > std::chrono::seconds(120)) break;
    }
    if (!got)
    {
        uint64_t further = S.visits.load() - visitsAtPark;
        // recover: a second stop, then wait
        R.send("stop");
        bool recovered = R.out.wait_line(mark, is_bestmove, 60000) >= 0;
        if (!recovered) { fprintf(stderr, "C06: engine ignores stop entirely; aborting harness process\n"); }
        if (lost)
            return rep.fail(std::string("stop:lost:") + point_name(pp),
                            "stop delivered while the search thread was parked at " + sched_desc + " was lost: " + std::to_string(further) +
                                " further node visits without a bestmove (bound " + std::to_string(VISIT_BOUND) + "); a second stop " +
                                (recovered ? "ended the search" : "was ignored too") + "\n " + desc);
        rep.cls("c06:inconclusive_no_bestmove_in_120s_without_visits");
        if (!recovered) _exit(3);
        return true;
    }
    {
        // distribution of the unwinding cost (node visits between the release and bestmove), for the evidence
        uint64_t further = S.visits.load() - visitsAtPark;
        rep.cls(further <= 100 ? "c06:unwind_le_100_visits" : further <= 1000 ? "c06:unwind_le_1000_visits" : further <= 10000 ? "c06:unwind_le_10000_visits"
                                                                                                                  : "c06:unwind_gt_10000_visits");
        static uint64_t maxFurther = 0;
        if (further > maxFurther)
        {
            rep.cls("c06:max_unwind_visits_seen_in_a_shard", further - maxFurther);
            maxFurther = further;
        }
    }
    // exactly one bestmove for this go
    int nb = 0;
    for (auto& l : R.out.snapshot(mark)) nb += is_bestmove(l);
    if (nb != 1) return rep.fail("stop:bestmove_count", std::to_string(nb) + " bestmove lines for one go\n " + desc);
    return true;
}

// ---- race half: free-running threads, ThreadSanitizer is the oracle (reports are collected by the driver) ----
bool prop_C06race(Tape& t, Report& rep)
{
    br::init_engine();
    Rig& R = rig();
    Sched& S = sched();
    verif::virtual_clock = false;
    S.counting_only = true;  // relaxed counter only: no mutex / condvar / acquire-release that would order the threads
    verif::callback = &sched_cb;
    std::string fen = pick_position(t, rep);
    uint64_t k = t.chance(1, 3) ? 0 : 1 + t.choose(30000);
    std::string go = t.chance(2, 3) ? "go infinite" : "go movetime 20000";
    std::string desc = "position fen " + fen + " ; " + go + " ; stop after >= " + std::to_string(k) + " visits (free running)";
    rep.decoded = desc;
    size_t mark = R.out.size();
    R.send("ucinewgame");
    R.send("position fen " + fen);
    S.visits.store(0, std::memory_order_relaxed);
    R.send(go);
    auto t0 = std::chrono::steady_clock::now();
    while (S.visits.load(std::memory_order_relaxed) < k && std::chrono::steady_clock::now() - t0 < std::chrono::seconds(20))
        std::this_thread::sleep_for(std::chrono::microseconds(100));
    R.send("stop");
    R.send("isready");
    rep.eval();
    long bm = R.out.wait_line(mark, is_bestmove, 15000);
    if (bm < 0)
    {
        // lost stop (decided by the deterministic half); recover so that the session can continue
        R.send("stop");
        R.out.wait_line(mark, is_bestmove, 60000);
        rep.cls("c06race:first_stop_lost");
    }
    rep.cls(k == 0 ? "c06race:stop_immediately_after_go" : "c06race:stop_mid_search");
    rep.nontriv(fnv1a(desc));
    rep.sample("c06race:session", desc, 2);
    return true;
}

}  // namespace

REGISTER_PROP("C06", prop_C06, nullptr);
REGISTER_PROP("C06race", prop_C06race, nullptr);
