// Model-based UCI sessions: a generated sequence of commands is sent to the in-process Uci::loop while a reference model
// tracks what the session state must be (current position per the rules oracle, the book named by the last setoption).
// Every observable answer is compared with the model.  The generator deliberately produces the command ORDERS in which
// state can be carried over wrongly: ucinewgame without a following position, the same position line twice, a position
// line that extends the previous one, `moves` between two position commands, several go commands in a row with
// different kinds of limits, setoption between searches.
//
// Each property that has a UCI-visible face runs the same sessions with its own oracle switched on (`focus`), so a failure
// is attributed to the property whose oracle fails:
//   C01 perft 1 lines      C02 printboard FEN        C05 bestmove legal / inside searchmoves, single bestmove
//   C08 mate in one played C09 depth sequence <= d, termination, time budget   C14 staticeval == fresh evaluation
//   C19 book answers come from the book named last, for the CURRENT position
//   C04 `hash` prints the same key for the same position and different keys for different positions, process-wide
#pragma once
#include "../ref/refpolyglot.h"
#include "../ref/refsolve.h"
#include "../gen/matepool.h"
#include "bridge.h"
#include "registry.h"
#include "score.h"
#include "search.h"
#include "ucirig.h"
#include "ucifmt.h"
#include "verif_hooks.h"

#include <fstream>
#include <unistd.h>

namespace us
{
enum Focus { F_C01, F_C02, F_C04, F_C05, F_C08, F_C09, F_C14, F_C19 };

struct Clock
{
    std::atomic<uint64_t> visits{0};
    std::atomic<uint64_t> rate{100};
    std::atomic<uint64_t> cap{300000};
};
inline Clock& clk()
{
    static Clock c;
    return c;
}
inline void cb(int point, engine::Search* s)
{
    if (point != engine::verif::NODE && point != engine::verif::QNODE) return;
    Clock& C = clk();
    uint64_t v = C.visits.fetch_add(1, std::memory_order_relaxed) + 1;
    engine::verif::virtual_elapsed_ms = int64_t(v / C.rate.load(std::memory_order_relaxed));
    uint64_t cap = C.cap.load(std::memory_order_relaxed);
    if (v == cap || (v > cap && (v - cap) % 50000 == 0)) s->stop();
}

struct BookRec
{
    std::string uci;  // decoded move text in the position the book was written for
    int weight;
};

struct Model
{
    ref::Pos start = ref::startpos();
    std::vector<ref::Move> moves;
    ref::Pos cur = ref::startpos();
    std::string last_position_line;  // what a GUI remembers: the text of the last position command and what it denotes
    ref::Pos line_start = ref::startpos();
    std::vector<ref::Move> line_moves;
    // the book named by the last `setoption name Polyglot Book`: key -> records
    std::map<uint64_t, std::vector<BookRec>> book;
    bool have_book = false;
    // What is on the board between `ucinewgame` and the next `position` command is the engine's business (this one resets
    // it to the start position, another might keep it): ucifmt.h measures it once per process; if it cannot be determined
    // the model treats the board as unknown and the generator sends a `position` command next.
    bool known = false;
    void set(const ref::Pos& s, const std::vector<ref::Move>& ms)
    {
        start = s;
        moves = ms;
        cur = s;
        for (auto& m : ms) cur = ref::make(cur, m);
        known = true;
    }
    int newgame_board = 0;  // ucifmt::Fmt::newgame_board, measured once per process
    void newgame()
    {
        if (newgame_board == 2 && known) return;  // this engine keeps the board
        bool resets = newgame_board == 1;
        set(ref::startpos(), {});
        known = resets;
    }
};

inline std::string position_line(const ref::Pos& s, const std::vector<ref::Move>& ms, bool allowStartpos)
{
    std::string c = allowStartpos && ref::to_fen(s) == ref::to_fen(ref::startpos()) ? std::string("position startpos") : "position fen " + ref::to_fen(s);
    if (!ms.empty())
    {
        c += " moves";
        for (auto& m : ms) c += " " + m.uci();
    }
    return c;
}

inline uint16_t book_code(const ref::Pos& p, const ref::Move& m)
{
    int to = m.to;
    if (ref::is_castle(p, m)) to = ref::SQ(ref::FL(m.to) == 6 ? 7 : 0, ref::RK(m.to));
    int promo = m.promo == 'n' ? 1 : m.promo == 'b' ? 2 : m.promo == 'r' ? 3 : m.promo == 'q' ? 4 : 0;
    return uint16_t((promo << 12) | (ref::RK(m.from) << 9) | (ref::FL(m.from) << 6) | (ref::RK(to) << 3) | ref::FL(to));
}

// returns false on a violation (rep.fail already called)
inline bool run_inner(Tape& t, Report& rep, Focus focus)
{
    br::init_engine();
    rigns::Rig& R = rigns::rig();
    engine::verif::virtual_clock = true;
    engine::verif::callback = &cb;
    Clock& C = clk();
    C.rate = 40 + t.choose(60);
    C.cap = 400000;
    Model M;
    std::string dir = opt("tmpdir", "/tmp");
    static int counter = 0;
    std::string transcript;
    auto send = [&](const std::string& c) {
        if (transcript.size() < 6000) transcript += (c.size() > 400 ? c.substr(0, 400) + "..." : c) + " ; ";
        R.send(c);
        rep.decoded = transcript;
    };
    auto sync = [&]() {
        size_t m = R.out.size();
        R.send("isready");
        return R.out.wait_line(m, [](const std::string& l) { return l == "readyok"; }, 120000) >= 0;
    };
    const ucifmt::Fmt& FMT = ucifmt::fmt(&rep);  // parsers calibrated on the start position (first use in this process)
    send("ucinewgame");
    send("setoption name Polyglot Book value /nonexistent-verif-book");
    // C19 sessions use both selection policies; the others keep `best` (deterministic answers)
    const bool randomPolicy = focus == F_C19 && t.flag();
    send(std::string("setoption name Polyglot Sample value ") + (randomPolicy ? "random" : "best"));
    M.newgame_board = FMT.newgame_board;
    M.newgame();
    int ncmd = 3 + int(t.choose(12));
    bool lastWasGo = false;
    std::string pendingBookPath;
    for (int ci = 0; ci < ncmd; ++ci)
    {
        // command kinds; the focus property's observable gets extra weight
        int k = t.weighted({5, 2, 2, 6, 2, 2, 2, 1});
        if (focus == F_C04) k = t.weighted({5, 3, 2, 1, 0, 0, 1, 0, 8});
        if (focus == F_C02 && t.chance(1, 3)) k = 4;
        if (focus == F_C14 && t.chance(1, 3)) k = 5;
        if (focus == F_C01 && t.chance(1, 3)) k = 6;
        if (focus == F_C19 && t.chance(1, 4)) k = 7;
        if (focus == F_C09 && t.chance(1, 8)) k = 7;  // a book record for the current position, then searchmoves
        if ((focus == F_C05 || focus == F_C08 || focus == F_C09) && t.chance(1, 3)) k = 3;
        if (!M.known && k != 2) k = 0;  // nothing looks at the board between ucinewgame and the next position command
        switch (k)
        {
        case 0:
        {
            // position: new / the very same line again / an extension of the previous line
            int how = M.last_position_line.empty() ? 0 : t.weighted({4, 3, 3});
            if (how != 0 && t.chance(1, 2))
            {
                // "the same position again from a clean state" / "next move of a game after the GUI restarted the game"
                send("ucinewgame");
                M.newgame();
                rep.cls("uci:ucinewgame_then_known_position_line");
            }
            if (how == 1)
            {
                send(M.last_position_line);  // identical text: must have the same effect as the first time
                M.set(M.line_start, M.line_moves);
                rep.cls("uci:position_line_repeated");
            }
            else if (how == 2)
            {
                // extend the previous line by 1-3 legal moves (what a GUI sends move after move)
                // the engine's board may have moved on (`moves`, ucinewgame); the position command resets it to start + ms
                std::vector<ref::Move> ms = M.line_moves;
                ref::Pos p = M.line_start;
                for (auto& m : ms) p = ref::make(p, m);
                int add = 1 + int(t.choose(3));
                for (int a = 0; a < add; ++a)
                {
                    std::vector<ref::Move> lm = ref::legal_moves(p);
                    if (lm.empty()) break;
                    const ref::Move& m = lm[t.choose(uint32_t(lm.size()))];
                    ref::Pos nx = ref::make(p, m);
                    if (nx.half > 150) break;
                    ms.push_back(m);
                    p = nx;
                }
                M.set(M.line_start, ms);
                M.line_moves = ms;
                M.last_position_line = position_line(M.line_start, ms, M.last_position_line.rfind("position startpos", 0) == 0);
                send(M.last_position_line);
                rep.cls("uci:position_line_extended");
            }
            else
            {
                gen::Root g = t.chance(1, 3) ? gen::gen_game(t, &rep, 30) : gen::gen_root(t, &rep, 30);
                if (focus == F_C08 && t.chance(2, 3))
                {
                    // C08's observable needs positions with a mate in one: the special-move mate pool
                    const mp::Pool& P = mp::pool(uint64_t(opt_int("zseed", 1)), opt_int("matepool_tries", 150000), size_t(opt_int("matepool_cap", 16)));
                    int k = int(t.choose(mp::NKIND));
                    if (!P.k[k].empty())
                    {
                        g = gen::Root();
                        g.start = g.cur = P.k[k][t.choose(uint32_t(P.k[k].size()))].p;
                    }
                }
                M.set(g.start, g.moves);
                M.line_start = g.start;
                M.line_moves = g.moves;
                M.last_position_line = position_line(g.start, g.moves, t.flag());
                send(M.last_position_line);
            }
            lastWasGo = false;
            break;
        }
        case 1:
        {
            // the engine's own `moves` command continues from the current board
            std::vector<ref::Move> lm = ref::legal_moves(M.cur);
            if (lm.empty()) break;
            std::string c = "moves";
            std::vector<ref::Move> ms = M.moves;
            ref::Pos p = M.cur;
            int n = 1 + int(t.choose(3));
            for (int a = 0; a < n; ++a)
            {
                lm = ref::legal_moves(p);
                if (lm.empty()) break;
                const ref::Move& m = lm[t.choose(uint32_t(lm.size()))];
                ref::Pos nx = ref::make(p, m);
                if (nx.half > 150) break;
                c += " " + m.uci();
                ms.push_back(m);
                p = nx;
            }
            if (c == "moves") break;
            send(c);
            // model: same start, more moves; the remembered position LINE stays what was last sent as a position command
            M.moves = ms;
            M.cur = p;
            rep.cls("uci:moves_command");
            lastWasGo = false;
            break;
        }
        case 2:
            send("ucinewgame");
            M.newgame();  // the board is the start position now; the last position LINE is remembered by a GUI, not by the rules
            rep.cls("uci:ucinewgame");
            lastWasGo = false;
            break;
        case 3:
        {
            std::vector<ref::Move> legal = ref::legal_moves(M.cur);
            if (legal.empty()) break;  // a GUI does not ask for a move in a finished game
            std::string go = "go";
            // timed searches are what C09 is about; elsewhere they are kept rare because they cost the most
            int kind = focus == F_C09 ? t.weighted({4, 3, 3, 1}) : t.weighted({12, 1, 1, 2});
            int depthLimit = 0;
            uint64_t budget_ms = 0;
            if (kind == 0) { depthLimit = 1 + int(t.choose(3)); go += " depth " + std::to_string(depthLimit); }
            else if (kind == 1) { int mt = 500 << t.choose(3); go += " movetime " + std::to_string(mt); budget_ms = uint64_t(mt); }
            else if (kind == 2)
            {
                int w = 700 << t.choose(3), b = 700 << t.choose(3);
                go += " wtime " + std::to_string(w) + " btime " + std::to_string(b) + " winc 0 binc 0";
                budget_ms = uint64_t((M.cur.wtm ? w : b) * 7 / 10);
            }
            else go += " nodes " + std::to_string(500 + t.choose(5000));
            std::vector<std::string> subset;
            if (t.chance(1, 4))
            {
                std::string sm = " searchmoves";
                int n = 1 + int(t.choose(uint32_t(std::min<size_t>(3, legal.size()))));
                for (int a = 0; a < n; ++a)
                {
                    std::string u = legal[t.choose(uint32_t(legal.size()))].uci();
                    if (std::find(subset.begin(), subset.end(), u) == subset.end())
                    {
                        subset.push_back(u);
                        sm += " " + u;
                    }
                }
                rep.cls("uci:go_searchmoves");
                // UCI fixes no order for the parameters of `go`: the move list may come before the other limits
                if (t.chance(1, 3))
                {
                    go = "go" + sm + go.substr(2);
                    rep.cls("uci:go_searchmoves_before_other_limits");
                }
                else
                    go += sm;
            }
            size_t mark = R.out.size();
            C.visits = 0;
            send(go);
            long bm = R.out.wait_line(mark, rigns::is_bestmove, 300000);
            rep.eval();
            rep.cls("uci:go");
            if (lastWasGo) rep.cls("uci:go_directly_after_go");
            lastWasGo = true;
            uint64_t v = C.visits.load();
            if (bm < 0)
            {
                R.send("stop");
                R.out.wait_line(mark, rigns::is_bestmove, 300000);
                if (focus == F_C05 || focus == F_C09) return rep.fail("uci:go:no_bestmove", "`" + go + "` was not answered by a bestmove\n session: " + transcript);
                break;
            }
            std::vector<std::string> lines = R.out.snapshot(mark);
            std::string best;
            int nb = 0, maxDepth = 0;
            bool searched = false;
            std::vector<std::string> lastPv;
            long long mateY = 0;
            bool lastMate = false;
            for (auto& l : lines)
            {
                if (rigns::is_bestmove(l))
                {
                    ++nb;
                    best = l.substr(9, l.find(' ', 9) == std::string::npos ? std::string::npos : l.find(' ', 9) - 9);
                }
                if (l.rfind("info depth ", 0) == 0)
                {
                    maxDepth = std::max(maxDepth, atoi(l.c_str() + 11));
                    auto sp = l.find(" score mate ");
                    lastMate = sp != std::string::npos;
                    if (lastMate) mateY = atoll(l.c_str() + sp + 12);
                }
            }
            // "the answer came from a search" = the search visited nodes (counted by the hook callback); `info` lines are not a
            // reliable sign: a search that is cut off before its first iteration completes prints none
            searched = v > 0;
            bool isLegal = std::find_if(legal.begin(), legal.end(), [&](const ref::Move& m) { return m.uci() == best; }) != legal.end();
            // the book: if the CURRENT position's key is in the book named last, the answer must come from it (best policy)
            uint64_t key = ref::polyglot_key(M.cur);
            auto bit = M.book.find(key);
            if (focus == F_C19 && M.have_book)
            {
                bool bookAllowed = true;  // a searchmoves restriction that excludes the book's best record forces a search
                if (bit != M.book.end() && !subset.empty())
                {
                    int maxw = 0;
                    for (auto& r : bit->second) maxw = std::max(maxw, r.weight);
                    bool all = true;
                    for (auto& r : bit->second)
                        if (r.weight == maxw) all &= std::find(subset.begin(), subset.end(), r.uci) != subset.end();
                    bookAllowed = all;
                }
                if (!bookAllowed) rep.cls("uci:go_book_record_excluded_by_searchmoves");
                else if (bit != M.book.end() && randomPolicy)
                {
                    // random policy: the answer is a positive-weight record of the key; a key whose records all have weight
                    // zero offers nothing that may be played, so the answer has to come from a search
                    long sum = 0;
                    for (auto& r : bit->second) sum += r.weight;
                    bool restricted = !subset.empty();
                    if (sum == 0)
                    {
                        rep.cls("uci:go_random_policy_all_zero_weights");
                        if (!searched)
                            return rep.fail("book:uci:zero_weight_move_played", "every record of the current position's key has weight zero, yet '" + best +
                                                                                    "' was answered without a search under the random policy\n position " + ref::to_fen(M.cur) + "\n session: " + transcript);
                    }
                    else if (!restricted)
                    {
                        rep.cls("uci:go_random_policy_key_in_book");
                        bool ok = false;
                        for (auto& r : bit->second) ok |= (r.weight > 0 && r.uci == best);
                        if (!ok || searched)
                            return rep.fail("book:uci:random_policy", "the current position's key is in the book (weight sum " + std::to_string(sum) + ") but the answer '" + best + "' " +
                                                                          (searched ? "came from a search" : "is not a positive-weight record of it") + "\n position " + ref::to_fen(M.cur) + "\n session: " + transcript);
                    }
                }
                else if (bit != M.book.end())
                {
                    int maxw = 0;
                    for (auto& r : bit->second) maxw = std::max(maxw, r.weight);
                    bool ok = false;
                    for (auto& r : bit->second) ok |= (r.weight == maxw && r.uci == best);
                    rep.cls("uci:go_with_key_in_book");
                    if (!ok || searched)
                        return rep.fail("book:uci:current_book_not_used", "the current position's key is in the book named by the last setoption, but the answer '" + best + "' " +
                                                                              (searched ? "came from a search" : "is not a maximal-weight record of it") + "\n position " + ref::to_fen(M.cur) + "\n session: " + transcript);
                }
                else
                {
                    rep.cls("uci:go_with_key_not_in_book");
                    if (!searched)
                        return rep.fail("book:uci:stale_records", "the current position's key is NOT in the book named by the last setoption, yet '" + best +
                                                                      "' was answered without a search (a book answer for another position or from an earlier book)\n position " + ref::to_fen(M.cur) + "\n session: " + transcript);
                }
            }
            if ((focus == F_C05 || focus == F_C09) && nb != 1)
                return rep.fail("uci:go:bestmove_count", std::to_string(nb) + " bestmove lines for `" + go + "`\n session: " + transcript);
            // membership in searchmoves is C09's statement (C05 only asks for a legal move)
            if (focus == F_C09 && !subset.empty() && std::find(subset.begin(), subset.end(), best) == subset.end())
                return rep.fail("limits:bestmove_outside_searchmoves",
                                "bestmove " + best + " is not one of the searchmoves of `" + go + "`\n position " + ref::to_fen(M.cur) + "\n session: " + transcript);
            if (focus == F_C05 && !isLegal)
                return rep.fail("go:illegal_bestmove:uci_session", "bestmove " + best + " is not legal in the session's current position " + ref::to_fen(M.cur) + "\n session: " + transcript);
            if (focus == F_C09)
            {
                if (depthLimit && maxDepth > depthLimit)
                    return rep.fail("limits:uci:deeper_than_requested", "iteration " + std::to_string(maxDepth) + " reported for `" + go + "`\n session: " + transcript);
                // only a time budget tells how long a search may run: a depth- or nodes-limited search that reaches the
                // harness's visit cap (unbounded quiescence in crowded positions) is inconclusive, not a violation
                if (v >= C.cap.load()) rep.cls("uci:go_inconclusive_visit_cap");
                if (budget_ms && v >= C.cap.load())
                    return rep.fail("limits:uci:does_not_terminate", "`" + go + "` was still searching after " + std::to_string(v) + " node visits (virtual clock " + std::to_string(C.rate.load()) +
                                                                         " visits/ms; its budget is " + std::to_string(budget_ms) + " ms) and had to be stopped by the harness\n session: " + transcript);
                if (budget_ms && v > budget_ms * C.rate.load() + 70000)
                    return rep.fail("limits:uci:time_budget_exceeded", "`" + go + "` ran for " + std::to_string(v / C.rate.load()) + " virtual ms, its own budget is " + std::to_string(budget_ms) +
                                                                           " ms\n session: " + transcript);
            }
            if (focus == F_C08 && depthLimit)
            {
                std::vector<ref::Move> m1 = ref::mates_in_one(M.cur);
                bool restricted = !subset.empty();
                if (!m1.empty() && !restricted && (bit == M.book.end()))
                {
                    rep.cls("uci:mate_in_one_available");
                    if (std::find_if(m1.begin(), m1.end(), [&](const ref::Move& m) { return m.uci() == best; }) == m1.end())
                        return rep.fail("mate:mate_in_one_not_played:uci_session", "a mate in one exists (" + m1[0].uci() + ") in the session's current position " + ref::to_fen(M.cur) +
                                                                                       " but `" + go + "` answered " + best + "\n session: " + transcript);
                }
                if (lastMate && mateY == 0) return rep.fail("mate:false_announcement:mate0", "score mate 0 announced\n session: " + transcript);
            }
            if (isLegal) rep.nontriv(fnv1a(transcript));
            break;
        }
        case 8:
        {
            // C04 through the text layer: the key printed by `hash` is a function of the position for the whole process
            size_t mark = R.out.size();
            send("hash");
            if (!FMT.hash)
            {
                sync();
                break;
            }
            long li = R.out.wait_line(mark, [](const std::string& l) { return l.rfind("Hex: ", 0) == 0; }, 60000);
            rep.eval();
            rep.cls("uci:hash");
            if (li < 0 || !FMT.hash) break;
            std::string hex = R.out.snapshot(size_t(li))[0].substr(5);
            std::string k4 = ref::key4(M.cur);
            static std::map<std::string, std::string> keyOf;   // position -> key text
            static std::map<std::string, std::string> posOf;   // key text -> position
            auto a = keyOf.find(k4);
            if (a != keyOf.end())
            {
                rep.cls("uci:hash_of_a_position_seen_before");
                rep.nontriv(fnv1a(transcript));
                if (a->second != hex)
                    return rep.fail("key:uci:same_position_different_key", "`hash` prints " + hex + " for " + k4 + " but printed " + a->second +
                                                                               " for the same position earlier in this process\n session: " + transcript);
            }
            else if (keyOf.size() < 200000)
                keyOf[k4] = hex;
            auto b = posOf.find(hex);
            if (b != posOf.end() && b->second != k4)
                return rep.fail("key:uci:different_positions_same_key", "`hash` prints " + hex + " for " + k4 + " and printed the same key for " + b->second + "\n session: " + transcript);
            if (posOf.size() < 200000) posOf[hex] = k4;
            break;
        }
        case 4:
        {
            size_t mark = R.out.size();
            send("printboard");
            if (!FMT.printboard)
            {
                sync();  // the command is still part of the session; its output format is not the one this parser knows
                break;
            }
            long li = R.out.wait_line(mark, [](const std::string& l) { return l.rfind("Fen: \"", 0) == 0; }, 60000);
            rep.eval();
            rep.cls("uci:printboard");
            if (li < 0) break;
            if (focus == F_C02 && FMT.printboard)
            {
                std::string line = R.out.snapshot(size_t(li))[0];
                std::string got = line.substr(6, line.size() - 7), want = ref::to_fen(M.cur);
                if (got != want)
                    return rep.fail("domove:uci_session", "printboard shows " + got + " but the session's position is " + want + "\n session: " + transcript);
                rep.nontriv(fnv1a(transcript));
            }
            break;
        }
        case 5:
        {
            if (ref::insufficient_material(M.cur)) break;
            size_t mark = R.out.size();
            send("staticeval");
            if (!FMT.staticeval)
            {
                sync();
                break;
            }
            long li = R.out.wait_line(mark, [](const std::string& l) { return l.rfind("Score: ", 0) == 0; }, 60000);
            rep.eval();
            rep.cls("uci:staticeval");
            if (li < 0 || !sync()) break;
            if (focus == F_C14 && FMT.staticeval)
            {
                std::string got = R.out.snapshot(size_t(li))[0].substr(7);
                auto fresh = std::make_unique<engine::PositionScorer>();
                engine::Position pos(ref::to_fen(M.cur));
                std::string want = engine::score2str(fresh->score(pos));
                if (got != want)
                    return rep.fail("purity:uci_staticeval", "staticeval prints '" + got + "' but a fresh evaluation of the session's position " + ref::to_fen(M.cur) + " is '" + want +
                                                                 "'\n session: " + transcript);
                rep.nontriv(fnv1a(transcript));
            }
            break;
        }
        case 6:
        {
            size_t mark = R.out.size();
            send("perft 1");
            if (!FMT.perft)
            {
                sync();
                break;
            }
            long li = R.out.wait_line(mark, [](const std::string& l) { return l.rfind("Speed:", 0) == 0; }, 120000);
            rep.eval();
            rep.cls("uci:perft");
            if (li < 0) break;
            if (focus == F_C01 && FMT.perft)
            {
                std::vector<std::string> got;
                for (auto& l : R.out.snapshot(mark))
                {
                    auto c = l.find(": ");
                    if (c != std::string::npos && c >= 4 && c <= 5 && l[0] >= 'a' && l[0] <= 'h' && l[1] >= '1' && l[1] <= '8' && l[2] >= 'a' && l[2] <= 'h') got.push_back(l.substr(0, c));
                }
                std::sort(got.begin(), got.end());
                std::vector<std::string> want = br::uci_list(ref::legal_moves(M.cur));
                if (got != want)
                    return rep.fail("movegen:uci_session", "perft 1 lists " + br::join(got) + " but the legal moves of the session's position " + ref::to_fen(M.cur) + " are " + br::join(want) +
                                                               "\n session: " + transcript);
                rep.nontriv(fnv1a(transcript));
            }
            break;
        }
        default:
        {
            // a new book: records for the CURRENT position (sometimes for another one only)
            std::string path = dir + "/verif-usbook-" + std::to_string(getpid()) + "-" + std::to_string(counter++) + ".bin";
            std::map<uint64_t, std::vector<BookRec>> nb;
            std::string bytes;
            ref::Pos bp = t.chance(1, 3) ? gen::gen_root(t, &rep, 10).cur : M.cur;
            std::vector<ref::Move> lm = ref::legal_moves(bp);
            int n = lm.empty() ? 0 : 1 + int(t.choose(3));
            uint64_t key = ref::polyglot_key(bp);
            for (int a = 0; a < n; ++a)
            {
                const ref::Move& m = lm[t.choose(uint32_t(lm.size()))];
                uint16_t code = book_code(bp, m), w = uint16_t(t.chance(1, 3) ? t.choose(3) : 1 + t.choose(50));  // zero weights too
                for (int b = 7; b >= 0; --b) bytes += char((key >> (8 * b)) & 0xFF);
                bytes += char(code >> 8);
                bytes += char(code & 0xFF);
                bytes += char(w >> 8);
                bytes += char(w & 0xFF);
                bytes += std::string(4, '\0');
                nb[key].push_back(BookRec{m.uci(), int(w)});
            }
            {
                std::ofstream o(path, std::ios::binary);
                o.write(bytes.data(), std::streamsize(bytes.size()));
            }
            send("setoption name Polyglot Book value " + path);
            if (!sync()) break;
            unlink(path.c_str());
            M.book = nb;
            M.have_book = true;
            rep.cls("uci:setoption_book");
            lastWasGo = false;
            break;
        }
        }
    }
    rep.sample("uci_session", transcript.substr(0, 700), 3);
    return true;
}

inline bool run(Tape& t, Report& rep, Focus focus)
{
    bool ok = run_inner(t, rep, focus);
    rigns::Rig& R = rigns::rig();
    size_t m = R.out.size();
    R.send("setoption name Polyglot Book value /nonexistent-verif-book");
    R.send("isready");
    R.out.wait_line(m, [](const std::string& l) { return l == "readyok"; }, 120000);
    engine::verif::callback = nullptr;
    engine::verif::virtual_clock = false;
    return ok;
}

}  // namespace us
