// The debugging commands of this engine (`perft`, `printboard`, `hash`, `staticeval`) print in formats that no listed
// property fixes.  The UCI text-path modes parse those formats, so each process first CALIBRATES its parsers on the start
// position right after `ucinewgame`, where the answers are known: if a format is not recognised (someone changed how the
// command prints), the modes that depend on it are switched off for the process and counted, instead of reporting the
// property as violated.
#pragma once
#include "../ref/refchess.h"
#include "bridge.h"
#include "registry.h"
#include "score.h"
#include "search.h"
#include "ucirig.h"

#include <memory>

namespace ucifmt
{
struct Fmt
{
    bool perft = false, printboard = false, hash = false, staticeval = false;
    // what this engine leaves on the board after `ucinewgame` (measured, not assumed): 1 = the start position,
    // 2 = the position that was there before, 0 = could not be determined (then the session model treats the board as
    // unknown until the next `position` command)
    int newgame_board = 0;
};

inline bool is_move_line(const std::string& l, std::string* mv = nullptr, uint64_t* n = nullptr)
{
    auto c = l.find(": ");
    if (c == std::string::npos || c < 4 || c > 5 || l.find(' ') != c + 1) return false;
    if (!(l[0] >= 'a' && l[0] <= 'h' && l[1] >= '1' && l[1] <= '8' && l[2] >= 'a' && l[2] <= 'h' && l[3] >= '1' && l[3] <= '8')) return false;
    if (mv) *mv = l.substr(0, c);
    if (n) *n = strtoull(l.c_str() + c + 2, nullptr, 10);
    return true;
}

inline const Fmt& fmt(Report* rep = nullptr)
{
    static Fmt F;
    static bool done = false;
    if (done) return F;
    done = true;
    br::init_engine();
    rigns::Rig& R = rigns::rig();
    const std::string startFen = ref::to_fen(ref::startpos());
    R.send("ucinewgame");
    R.send("position startpos");
    {
        size_t m = R.out.size();
        R.send("perft 1");
        long li = R.out.wait_line(m, [](const std::string& l) { return l.rfind("Speed:", 0) == 0; }, 30000);
        if (li >= 0)
        {
            std::vector<std::string> got;
            uint64_t total = 0;
            bool ones = true;
            for (auto& l : R.out.snapshot(m))
            {
                std::string mv;
                uint64_t n = 0;
                if (l.rfind("Number of nodes: ", 0) == 0) total = strtoull(l.c_str() + 17, nullptr, 10);
                else if (is_move_line(l, &mv, &n))
                {
                    got.push_back(mv);
                    ones &= n == 1;
                }
            }
            std::sort(got.begin(), got.end());
            std::vector<std::string> want = br::uci_list(ref::legal_moves(ref::startpos()));
            F.perft = got == want && total == 20 && ones;
        }
    }
    {
        size_t m = R.out.size();
        R.send("printboard");
        long li = R.out.wait_line(m, [](const std::string& l) { return l == "White to move" || l == "Black to move"; }, 30000);
        if (li >= 0)
            for (auto& l : R.out.snapshot(m))
                if (l == "Fen: \"" + startFen + "\"") F.printboard = true;
    }
    {
        size_t m = R.out.size();
        R.send("hash");
        long li = R.out.wait_line(m, [](const std::string& l) { return l.rfind("Hex: ", 0) == 0 && l.size() > 5; }, 30000);
        F.hash = li >= 0;
    }
    {
        size_t m = R.out.size();
        R.send("staticeval");
        long li = R.out.wait_line(m, [](const std::string& l) { return l.rfind("Score: ", 0) == 0; }, 30000);
        if (li >= 0)
        {
            auto fresh = std::make_unique<engine::PositionScorer>();
            engine::Position pos(startFen);
            F.staticeval = R.out.snapshot(size_t(li))[0].substr(7) == engine::score2str(fresh->score(pos));
        }
    }
    if (F.printboard)
    {
        const std::string other = "r3k2r/8/8/8/8/8/8/R3K2R b KQkq - 3 20";
        R.send("position fen " + other);
        R.send("ucinewgame");
        size_t m = R.out.size();
        R.send("printboard");
        long li = R.out.wait_line(m, [](const std::string& l) { return l == "White to move" || l == "Black to move"; }, 30000);
        if (li >= 0)
            for (auto& l : R.out.snapshot(m))
            {
                if (l == "Fen: \"" + startFen + "\"") F.newgame_board = 1;
                if (l == "Fen: \"" + other + "\"") F.newgame_board = 2;
            }
    }
    {
        size_t m = R.out.size();
        R.send("isready");
        R.out.wait_line(m, [](const std::string& l) { return l == "readyok"; }, 30000);
    }
    if (rep)
    {
        rep->cls(F.perft ? "ucifmt:perft_recognised" : "ucifmt:perft_NOT_recognised");
        rep->cls(F.printboard ? "ucifmt:printboard_recognised" : "ucifmt:printboard_NOT_recognised");
        rep->cls(F.hash ? "ucifmt:hash_recognised" : "ucifmt:hash_NOT_recognised");
        rep->cls(F.staticeval ? "ucifmt:staticeval_recognised" : "ucifmt:staticeval_NOT_recognised");
        rep->cls(F.newgame_board == 1 ? "ucifmt:ucinewgame_resets_the_board" : F.newgame_board == 2 ? "ucifmt:ucinewgame_keeps_the_board" : "ucifmt:ucinewgame_board_unknown");
    }
    return F;
}
}  // namespace ucifmt
