// C15 (move classification), C16 (UCI text / encoding / FEN round trips), C17 (SAN round trip and uniqueness),
// C18 (Polyglot keys against an independent implementation)
#include "../ref/refpolyglot.h"
#include "bridge.h"
#include "../gen/matepool.h"
#include "polyglot.h"
#include "registry.h"

using namespace engine;

namespace
{
// ------------------------------------------------------------------------------------------------
// C15
// ------------------------------------------------------------------------------------------------
bool c15_position(Position& pos, const ref::Pos& rp, Report& rep, const std::string& ctx)
{
    std::vector<ref::Move> ms = ref::legal_moves(rp);
    for (const auto& m : ms)
    {
        Move em = pos.parse_uci(m.uci());
        bool oCap = ref::is_capture(rp, m);
        bool oQuiet = !oCap && !m.promo;
        bool oCheck = ref::gives_check(rp, m);
        bool castle = ref::is_castle(rp, m), ep = ref::is_ep(rp, m);
        rep.eval();
        // class labels
        std::string k;
        if (castle) k = oCheck ? "castle_checking" : "castle_not_checking";
        else if (m.promo)
        {
            // does the NEW piece give the check (direct) or is it discovered?
            ref::Pos n = ref::make(rp, m);
            int ek = ref::king_sq(n, n.wtm);
            bool direct = oCheck && gen::piece_attacks(n, m.to, ek);
            k = std::string("promo_") + (oCheck ? (direct ? "check_by_new_piece" : "discovered_check") : "no_check");
        }
        else if (ep)
        {
            ref::Pos n = ref::make(rp, m);
            int ek = ref::king_sq(n, n.wtm);
            bool direct = oCheck && gen::piece_attacks(n, m.to, ek);
            k = std::string("ep_") + (oCheck ? (direct ? "direct_check" : "discovered_check") : "no_check");
        }
        else if (oCheck)
        {
            ref::Pos n = ref::make(rp, m);
            int ek = ref::king_sq(n, n.wtm);
            bool direct = gen::piece_attacks(n, m.to, ek);
            int nchk = ref::count_checkers(n, n.wtm);
            k = nchk >= 2 ? "double_check" : (direct ? "direct_check" : "discovered_check");
        }
        else if (oCap)
            k = "capture";
        if (castle && !oCheck)
        {
            // enemy king on the rook's OLD line (file of the corner) — a trap for from/to based logic
            int ek = ref::king_sq(rp, !rp.wtm);
            int rookFile = ref::FL(m.to) == 6 ? 7 : 0;
            if (ref::FL(ek) == rookFile) k = "castle_not_checking_king_on_old_rook_file";
        }
        if (!k.empty())
        {
            rep.cls("c15:" + k);
            rep.nontriv(fnv1a(ref::key4(rp) + m.uci()));
            rep.sample("c15:" + k, ref::to_fen(rp) + " " + m.uci(), 1);
        }
        bool gCap = pos.move_is_capture(em), gQuiet = pos.move_is_quiet(em), gCheck = pos.move_gives_check(em);
        auto bad = [&](const char* name, bool got, bool want) {
            std::string sig = std::string("classify:") + name + (castle ? ":castle" : (m.promo ? ":promotion" : (ep ? ":ep" : "")));
            return rep.fail(sig, std::string(name) + "(" + m.uci() + ") = " + (got ? "true" : "false") + " but playing the move shows " +
                                     (want ? "true" : "false") + "\n at " + ref::to_fen(rp) + "\n " + ctx);
        };
        if (gCap != oCap) return bad("move_is_capture", gCap, oCap);
        if (gQuiet != oQuiet) return bad("move_is_quiet", gQuiet, oQuiet);
        if (gCheck != oCheck) return bad("move_gives_check", gCheck, oCheck);
    }
    return true;
}

// Live walk on ONE Position object: make a move, ask there, unmake it, ask the parent again; make a null move (where the
// search could), ask the side-to-move twin, unmake it, ask again.  The answers must be those of a freshly loaded position:
// per-object or static memos that a make/unmake path forgets to invalidate, or that are keyed by part of the state only
// (occupancy without the side to move), show up here and nowhere else.
template <class Check>
bool live_walk(Tape& t, const gen::Root& root, Report& rep, const char* tag, Check check)
{
    Position live = br::replay(root);
    ref::Pos cur = root.cur;
    int steps = 2 + int(t.choose(4));
    for (int i = 0; i < steps; ++i)
    {
        std::vector<ref::Move> lm = ref::legal_moves(cur);
        if (lm.empty()) break;
        const ref::Move m = lm[t.choose(uint32_t(lm.size()))];
        ref::Pos child = ref::make(cur, m);
        Move em = live.parse_uci(m.uci());
        MoveInfo info = live.do_move(em);
        if (!check(live, child, std::string(tag) + ": live object after " + m.uci() + " from " + ref::to_fen(cur))) return false;
        bool stay = t.chance(1, 3) && child.half <= 150;
        if (stay)
        {
            cur = child;
            continue;
        }
        live.undo_move(em, info);
        rep.cls(std::string(tag) + ":asked_again_after_take_back");
        if (!check(live, cur, std::string(tag) + ": live object after " + m.uci() + " was made, asked and taken back at " + ref::to_fen(cur))) return false;
        if (!ref::in_check(cur, cur.wtm) && t.chance(1, 2))
        {
            // the side-to-move twin: same placement (and occupancy), other side to move
            ref::Pos twin = cur;
            twin.wtm = !cur.wtm;
            twin.ep = -1;
            twin.half = cur.half + 1;
            if (!cur.wtm) twin.full = cur.full + 1;
            if (ref::domain_violation(twin).empty())
            {
                MoveInfo ni = live.do_null_move();
                rep.cls(std::string(tag) + ":asked_inside_a_null_move");
                if (!check(live, twin, std::string(tag) + ": live object inside a null move made at " + ref::to_fen(cur))) return false;
                live.undo_null_move(ni);
                if (!check(live, cur, std::string(tag) + ": live object after a null move was made and taken back at " + ref::to_fen(cur))) return false;
            }
        }
    }
    return true;
}

bool prop_C15(Tape& t, Report& rep)
{
    br::init_engine();
    gen::Root root = gen::gen_root(t, &rep, 80);
    if (t.chance(1, 15))
    {
        // positions in which a special move (en passant incl. through the captured pawn's square, promotions, castling,
        // discovered / double check) gives check AND mate: the classification of exactly those moves
        const mp::Pool& P = mp::pool(uint64_t(opt_int("zseed", 1)), opt_int("matepool_tries", 150000), size_t(opt_int("matepool_cap", 16)));
        int k = int(t.choose(mp::NKIND));
        if (!P.k[k].empty())
        {
            root = gen::Root();
            root.start = root.cur = P.k[k][t.choose(uint32_t(P.k[k].size()))].p;
            root.kind = std::string("special_mate_pool:") + mp::KNAME[k];
            rep.cls("c15:special_mate_pool_root");
        }
    }
    rep.decoded = root.describe();
    if (t.chance(1, 6))
        return live_walk(t, root, rep, "c15", [&](Position& p, const ref::Pos& rp, const std::string& ctx) { return c15_position(p, rp, rep, ctx + "\n root: " + root.describe()); });
    Position pos = br::from_fen(root.cur);
    if (!c15_position(pos, root.cur, rep, "root: " + root.describe())) return false;
    // children of the root as well (budgeted)
    int budget = int(opt_int("children", g_tier ? 40 : 12));
    std::vector<ref::Move> ms = ref::legal_moves(root.cur);
    for (int i = 0; i < budget && !ms.empty(); ++i)
    {
        const ref::Move& m = ms[t.choose(uint32_t(ms.size()))];
        ref::Pos child = ref::make(root.cur, m);
        Position cpos = br::from_fen(child);
        if (!c15_position(cpos, child, rep, "root: " + root.describe() + " then " + m.uci())) return false;
    }
    return true;
}

// ------------------------------------------------------------------------------------------------
// C16
// ------------------------------------------------------------------------------------------------
bool c16_encoding_exhaustive(Report& rep)
{
    // all (from, to, promotion) triples and castling codes
    for (int f = 0; f < 64; ++f)
        for (int to_ = 0; to_ < 64; ++to_)
        {
            Move m = create_move(Square(f), Square(to_));
            rep.eval();
            if (from(m) != Square(f) || to(m) != Square(to_) || promotion(m) != NO_PIECE_KIND || castling(m) != NO_CASTLING)
                return rep.fail("encoding:move", "create_move(" + ref::sqname(f) + "," + ref::sqname(to_) + ") decodes differently");
            for (PieceKind pk : {KNIGHT, BISHOP, ROOK, QUEEN})
            {
                Move p = create_promotion(Square(f), Square(to_), pk);
                rep.eval();
                if (from(p) != Square(f) || to(p) != Square(to_) || promotion(p) != pk || castling(p) != NO_CASTLING)
                    return rep.fail("encoding:promotion", "create_promotion(" + ref::sqname(f) + "," + ref::sqname(to_) + "," +
                                                              std::to_string(int(pk)) + ") decodes differently");
            }
        }
    for (Castling c : {KING_CASTLING, QUEEN_CASTLING})
    {
        Move m = create_castling(c);
        rep.eval();
        if (castling(m) != c || promotion(m) != NO_PIECE_KIND)
            return rep.fail("encoding:castling", "create_castling decodes differently");
    }
    if (KING_CASTLING_MOVE == QUEEN_CASTLING_MOVE || KING_CASTLING_MOVE == NO_MOVE)
        return rep.fail("encoding:castling", "castling codes are not distinct");
    rep.cls("c16:encoding_exhaustive_pass");
    return true;
}

bool c16_fen_roundtrip(const Position& pos, Report& rep, const std::string& ctx)
{
    std::string f = pos.fen();
    Position q(f);
    rep.eval();
    std::string d;
    if (q.fen() != f) d += " fen[" + q.fen() + "]";
    if (q.hash() != pos.hash()) d += " hash";
    if (q.pawn_hash() != pos.pawn_hash()) d += " pawn_hash";
    for (int i = 0; i < 64; ++i)
        if (q.piece_at(Square(i)) != pos.piece_at(Square(i)))
        {
            d += " piece_at(" + ref::sqname(i) + ")";
            break;
        }
    if (q.castling_rights() != pos.castling_rights()) d += " rights";
    if (q.enpassant_square() != pos.enpassant_square()) d += " ep";
    if (q.half_moves() != pos.half_moves()) d += " halfmove";
    if (q.ply_count() != pos.ply_count()) d += " ply_count";
    if (q.color() != pos.color()) d += " side";
    if (!(q == pos)) d += " operator==";
    for (Piece p = W_PAWN; p <= B_KING; ++p)
        if (q.number_of_pieces(p) != pos.number_of_pieces(p)) d += " piece_count";
    if (!d.empty())
        return rep.fail("roundtrip:fen:" + d.substr(1, d.find_first_of("[ ", 1) - 1), "loading the printed FEN gives a different position:" + d +
                                                                                            "\n fen=" + f + "\n " + ctx);
    return true;
}

bool prop_C16(Tape& t, Report& rep)
{
    br::init_engine();
    static bool exhaustiveDone = false;
    if (!exhaustiveDone)
    {
        exhaustiveDone = true;
        if (!c16_encoding_exhaustive(rep)) return false;
    }
    gen::Root root = gen::gen_root(t, &rep, 100);
    rep.decoded = root.describe();
    bool viaReplay = !root.moves.empty();
    Position pos = viaReplay ? br::replay(root) : br::from_fen(root.cur);
    // FEN text: the generated FEN loads and prints identically
    {
        std::string want = ref::to_fen(root.cur);
        Position direct(want);
        rep.eval();
        if (direct.fen() != want)
            return rep.fail("roundtrip:fen:print", "Position(fen).fen() differs\n in : " + want + "\n out: " + direct.fen());
        if (root.cur.full > 200) rep.cls("c16:fullmove>200");
        if (root.cur.half > 99) rep.cls("c16:halfmove>99");
        if (root.cur.ep >= 0) rep.cls("c16:fen_with_ep");
        if (root.cur.cK || root.cur.cQ || root.cur.ck || root.cur.cq) rep.cls("c16:fen_with_rights");
        if (root.cur.ep >= 0 || root.cur.half > 0 || root.cur.full > 1 || root.cur.cK || root.cur.cQ || root.cur.ck || root.cur.cq)
            rep.nontriv(fnv1a("fen" + want));
    }
    if (!c16_fen_roundtrip(pos, rep, "root: " + root.describe())) return false;
    // every legal move: uci text equals the oracle's text, parses back to the same move
    br::EMoves em = br::engine_moves(pos);
    std::vector<std::string> want = br::uci_list(ref::legal_moves(root.cur));
    for (size_t i = 0; i < em.raw.size(); ++i)
    {
        Move m = em.raw[i];
        std::string u = pos.uci(m);
        Move back = pos.parse_uci(u);
        rep.eval();
        bool special = castling(m) != NO_CASTLING || promotion(m) != NO_PIECE_KIND;
        if (castling(m) != NO_CASTLING) rep.cls(std::string("c16:castle_") + u);
        if (promotion(m) != NO_PIECE_KIND) rep.cls(std::string("c16:promo_") + u.back());
        if (special)
        {
            rep.nontriv(fnv1a(ref::key4(root.cur) + u));
            rep.sample("c16:special_move", ref::to_fen(root.cur) + " " + u, 3);
        }
        if (back != m)
            return rep.fail(std::string("roundtrip:uci") + (castling(m) != NO_CASTLING ? ":castle" : (promotion(m) ? ":promotion" : "")),
                            "parse_uci(uci(m)) != m for " + u + " (encoded " + std::to_string(m) + " -> " + std::to_string(back) +
                                ")\n at " + ref::to_fen(root.cur));
        if (std::find(want.begin(), want.end(), u) == want.end())
            return rep.fail("roundtrip:uci:text", "engine prints move text '" + u + "' which is not the long-algebraic form of any legal move\n at " +
                                                      ref::to_fen(root.cur) + "\n legal: " + br::join(want));
        // upper-case promotion letters are accepted too
        if (promotion(m) != NO_PIECE_KIND)
        {
            std::string up = u;
            up.back() = char(std::toupper((unsigned char)up.back()));
            if (pos.parse_uci(up) != m) return rep.fail("roundtrip:uci:promotion", "parse_uci(" + up + ") != " + u);
        }
    }
    // children: FEN round trip after playing each move
    int budget = int(opt_int("children", g_tier ? 60 : 20));
    for (size_t i = 0; i < em.raw.size() && budget > 0; ++i, --budget)
    {
        Position c = pos;
        c.do_move(em.raw[i]);
        if (!c16_fen_roundtrip(c, rep, "after " + em.uci[i] + " from " + root.describe())) return false;
    }
    return true;
}

// ------------------------------------------------------------------------------------------------
// C17
// ------------------------------------------------------------------------------------------------
bool c17_position(Position& pos, const ref::Pos& rp, Report& rep, const std::string& ctx)
{
    br::EMoves em = br::engine_moves(pos);
    std::map<std::string, std::string> seen;  // san -> uci
    if (em.raw.size() > 128) rep.cls("c17:more_than_128_moves");
    for (size_t i = 0; i < em.raw.size(); ++i)
    {
        Move m = em.raw[i];
        std::string s = pos.san(m);
        rep.eval();
        Move back = pos.parse_san(s);
        bool castle = castling(m) != NO_CASTLING;
        bool suffix = !s.empty() && (s.back() == '+' || s.back() == '#');
        std::string k;
        if (castle) k = suffix ? "castle_with_suffix" : "castle";
        else if (promotion(m) != NO_PIECE_KIND) k = suffix ? "promotion_with_suffix" : "promotion";
        else
        {
            // disambiguation present?  piece letter followed by a file/rank before the target
            std::string core = s;
            while (!core.empty() && (core.back() == '+' || core.back() == '#')) core.pop_back();
            size_t x = core.find('x');
            std::string head = core.substr(0, core.size() - 2);
            if (x != std::string::npos) head = core.substr(0, x);
            if (!head.empty() && std::isupper((unsigned char)head[0]) && head.size() == 2) k = "disambiguated_one";
            if (!head.empty() && std::isupper((unsigned char)head[0]) && head.size() == 3) k = "disambiguated_file_and_rank";
        }
        if (!k.empty())
        {
            rep.cls("c17:" + k);
            rep.nontriv(fnv1a(ref::key4(rp) + em.uci[i]));
            rep.sample("c17:" + k, ref::to_fen(rp) + " " + em.uci[i] + " -> " + s, 1);
        }
        if (s.size() >= 1 && s.back() == '#') rep.cls("c17:mate_suffix");
        if (back != m)
            return rep.fail(std::string("san:roundtrip") + (castle ? ":castle" : "") + (suffix ? ":suffix" : ""),
                            "parse_san(san(m)) != m: move " + em.uci[i] + " prints as '" + s + "' which parses to " +
                                (back == NO_MOVE ? std::string("no move") : pos.uci(back)) + "\n at " + ref::to_fen(rp) + "\n " + ctx);
        auto it = seen.find(s);
        if (it != seen.end())
            return rep.fail("san:ambiguous", "two legal moves print the same SAN '" + s + "': " + it->second + " and " + em.uci[i] + "\n at " +
                                                 ref::to_fen(rp) + "\n " + ctx);
        seen[s] = em.uci[i];
    }
    return true;
}

bool prop_C17(Tape& t, Report& rep)
{
    br::init_engine();
    gen::Root root;
    if (t.chance(1, 3))
    {
        root.start = root.cur = gen::theme_swarm(t, &rep);
        root.kind = "swarm";
    }
    else
        root = gen::gen_root(t, &rep, 80);
    rep.decoded = root.describe();
    if (t.chance(1, 6))
        return live_walk(t, root, rep, "c17", [&](Position& p, const ref::Pos& rp, const std::string& ctx) { return c17_position(p, rp, rep, ctx + "\n root: " + root.describe()); });
    Position pos = br::from_fen(root.cur);
    if (!c17_position(pos, root.cur, rep, "root: " + root.describe())) return false;
    int budget = int(opt_int("children", g_tier ? 8 : 3));
    std::vector<ref::Move> ms = ref::legal_moves(root.cur);
    for (int i = 0; i < budget && !ms.empty(); ++i)
    {
        const ref::Move& m = ms[t.choose(uint32_t(ms.size()))];
        ref::Pos child = ref::make(root.cur, m);
        Position cpos = br::from_fen(child);
        if (!c17_position(cpos, child, rep, "root: " + root.describe() + " then " + m.uci())) return false;
    }
    return true;
}

// ------------------------------------------------------------------------------------------------
// C18
// ------------------------------------------------------------------------------------------------
struct PolyCoverage
{
    bool piece[768] = {false};
    bool castle[4] = {false};
    bool ep[8] = {false};
    bool turn = false;
};
PolyCoverage& polycov()
{
    static PolyCoverage c;
    return c;
}

bool c18_one(const ref::Pos& rp, Report& rep, const std::string& ctx)
{
    Position pos(ref::to_fen(rp));
    uint64_t got = PolyglotBook::hash(pos), want = ref::polyglot_key(rp);
    rep.eval();
    PolyCoverage& C = polycov();
    auto touch = [&](bool& b, const char* cls) {
        if (!b)
        {
            b = true;
            rep.cls(cls);
        }
    };
    for (int s = 0; s < 64; ++s)
        if (rp.b[s] != '.')
        {
            int base = ref::lower(rp.b[s]) == 'p' ? 0 : ref::lower(rp.b[s]) == 'n' ? 2 : ref::lower(rp.b[s]) == 'b' ? 4 : ref::lower(rp.b[s]) == 'r' ? 6 : ref::lower(rp.b[s]) == 'q' ? 8 : 10;
            touch(C.piece[64 * (base + (ref::is_white(rp.b[s]) ? 1 : 0)) + s], "c18:piece_constants_touched");
        }
    if (rp.cK) touch(C.castle[0], "c18:castle_constants_touched");
    if (rp.cQ) touch(C.castle[1], "c18:castle_constants_touched");
    if (rp.ck) touch(C.castle[2], "c18:castle_constants_touched");
    if (rp.cq) touch(C.castle[3], "c18:castle_constants_touched");
    std::string epk;
    if (rp.ep >= 0)
    {
        int f = ref::FL(rp.ep), r = rp.wtm ? 4 : 3;
        char mine = rp.wtm ? 'P' : 'p';
        bool left = f > 0 && rp.b[ref::SQ(f - 1, r)] == mine, right = f < 7 && rp.b[ref::SQ(f + 1, r)] == mine;
        epk = left && right ? "ep_capturer_both" : left ? "ep_capturer_left" : right ? "ep_capturer_right" : "ep_no_capturer";
        if (left || right)
        {
            touch(C.ep[f], "c18:ep_constants_touched");
            // capturer present but pinned / capture illegal: the format still includes the ep random
            bool anyLegal = false;
            for (auto& m : ref::legal_moves(rp)) anyLegal |= ref::is_ep(rp, m);
            if (!anyLegal) epk += "_but_capture_illegal";
            if (f == 0 || f == 7) rep.cls("c18:ep_on_rook_file");
        }
        rep.cls("c18:" + epk);
    }
    int nr = int(rp.cK) + int(rp.cQ) + int(rp.ck) + int(rp.cq);
    rep.cls("c18:rights_count_" + std::to_string(nr));
    if (rp.ep >= 0 || nr > 0)
    {
        rep.nontriv(fnv1a(ref::key4(rp)));
        rep.sample("c18:" + (epk.empty() ? std::string("rights_") + ref::rights_str(rp) : epk), ref::to_fen(rp), 1);
    }
    if (got != want)
    {
        // attribute the difference
        std::string sig = "polyglot:key";
        ref::Pos q = rp;
        q.ep = -1;
        Position p2(ref::to_fen(q));
        if (PolyglotBook::hash(p2) == ref::polyglot_key(q)) sig = "polyglot:key:enpassant";
        else
        {
            q.cK = q.cQ = q.ck = q.cq = false;
            Position p3(ref::to_fen(q));
            if (PolyglotBook::hash(p3) == ref::polyglot_key(q)) sig = "polyglot:key:castling";
        }
        char buf[80];
        snprintf(buf, sizeof buf, "engine=%016llx spec=%016llx", (unsigned long long)got, (unsigned long long)want);
        return rep.fail(sig, std::string("Polyglot key mismatch ") + buf + "\n at " + ref::to_fen(rp) + "\n " + ctx);
    }
    return true;
}

bool prop_C18(Tape& t, Report& rep)
{
    br::init_engine();
    int mode = t.weighted({3, 3, 2});
    if (mode == 0)
    {
        gen::Root root = gen::gen_root(t, &rep, 60);
        rep.decoded = root.describe();
        if (!c18_one(root.cur, rep, root.describe())) return false;
        // "neighbour" positions hashed back to back: the key must be computed from the position given, whatever was hashed
        // just before.  Neighbours share as much as possible with the root: same squares occupied by the same colours but
        // another kind of piece on one of them, the side-to-move twin, the sibling promotions of one pawn move.
        {
            int sq = int(t.choose(64));
            for (int k = 0; k < 64; ++k, sq = (sq + 1) & 63)
            {
                char c = root.cur.b[sq];
                if (c == '.' || ref::lower(c) == 'k' || ref::lower(c) == 'p') continue;
                ref::Pos q = root.cur;
                char nk = "nbrq"[t.choose(4)];
                if (nk == ref::lower(c)) nk = nk == 'q' ? 'r' : 'q';
                q.b[sq] = ref::is_white(c) ? char(std::toupper((unsigned char)nk)) : nk;
                gen::fix_rights(q);
                if (!ref::domain_violation(q).empty()) break;
                rep.cls("c18:same_occupancy_other_piece_kind_back_to_back");
                if (!c18_one(q, rep, "same occupancy, another piece kind on " + ref::sqname(sq) + ", hashed right after " + root.describe())) return false;
                if (!c18_one(root.cur, rep, "hashed again right after its same-occupancy neighbour: " + root.describe())) return false;
                break;
            }
            std::vector<ref::Move> lm = ref::legal_moves(root.cur);
            for (auto& m : lm)
                if (m.promo == 'q')
                {
                    for (char pc : {'q', 'r', 'b', 'n'})
                    {
                        ref::Move mm = m;
                        mm.promo = pc;
                        if (!c18_one(ref::make(root.cur, mm), rep, "sibling promotions hashed back to back: " + mm.uci() + " from " + root.describe())) return false;
                    }
                    rep.cls("c18:sibling_promotions_back_to_back");
                    break;
                }
        }
        // all 16 subsets of the rights the position can carry
        for (int mask = 0; mask < 16; ++mask)
        {
            ref::Pos q = root.cur;
            q.cK = mask & 1;
            q.cQ = mask & 2;
            q.ck = mask & 4;
            q.cq = mask & 8;
            gen::fix_rights(q);
            if (ref::key4(q) != ref::key4(root.cur))
                if (!c18_one(q, rep, "rights subset of " + root.describe())) return false;
        }
        return true;
    }
    if (mode == 1)
    {
        // en-passant situations: capturer left / right / both / none / pinned, every file
        ref::Pos p = gen::theme_ep_pin(t, &rep);
        rep.decoded = ref::to_fen(p);
        if (!c18_one(p, rep, "theme_ep")) return false;
        ref::Pos q = gen::gen_fen(t, &rep);
        for (int tries = 0; tries < 4; ++tries)
            if (gen::construct_ep(t, q)) break;
        return c18_one(q, rep, "constructed ep");
    }
    // games (positions after real double pushes); the key is also taken from the PLAYED position object, including after
    // nested make/unmake (the book is probed on the engine's live position, not on a freshly loaded one)
    gen::Root game = gen::gen_walk(t, &rep, 60);
    rep.decoded = game.describe();
    ref::Pos rp = game.start;
    Position played(ref::to_fen(game.start));
    auto live_key_ok = [&](const char* when) -> bool {
        rep.eval();
        rep.cls("c18:key_of_played_position");
        if (PolyglotBook::hash(played) != ref::polyglot_key(rp))
            return rep.fail("polyglot:key:played_position", std::string("Polyglot key of the played position object differs from the specification (") + when + ")\n at " +
                                                                ref::to_fen(rp) + "\n " + game.describe());
        return true;
    };
    if (!c18_one(rp, rep, game.describe())) return false;
    for (auto& m : game.moves)
    {
        played.do_move(played.parse_uci(m.uci()));
        rp = ref::make(rp, m);
        if (!c18_one(rp, rep, game.describe())) return false;
        if (!live_key_ok("after do_move")) return false;
        if (t.chance(1, 3))
        {
            // a small make/unmake tree below this position (captures and promotions first), then the key again
            std::vector<ref::Move> lm = ref::legal_moves(rp);
            std::stable_sort(lm.begin(), lm.end(), [&](const ref::Move& a, const ref::Move& b) {
                return int(a.promo != 0) * 2 + int(ref::is_capture(rp, a)) > int(b.promo != 0) * 2 + int(ref::is_capture(rp, b));
            });
            for (size_t k = 0; k < std::min<size_t>(lm.size(), 4); ++k)
            {
                Move e1 = played.parse_uci(lm[k].uci());
                MoveInfo i1 = played.do_move(e1);
                ref::Pos c1 = ref::make(rp, lm[k]);
                std::vector<ref::Move> l2 = ref::legal_moves(c1);
                std::stable_sort(l2.begin(), l2.end(), [&](const ref::Move& a, const ref::Move& b) { return int(ref::is_capture(c1, a)) > int(ref::is_capture(c1, b)); });
                for (size_t j = 0; j < std::min<size_t>(l2.size(), 3); ++j)
                {
                    Move e2 = played.parse_uci(l2[j].uci());
                    MoveInfo i2 = played.do_move(e2);
                    played.undo_move(e2, i2);
                }
                played.undo_move(e1, i1);
            }
            rep.cls("c18:make_unmake_tree");
            if (!live_key_ok("after a nested make/unmake tree")) return false;
        }
    }
    return true;
}

}  // namespace

REGISTER_PROP("C15", prop_C15, nullptr);
REGISTER_PROP("C16", prop_C16, nullptr);
REGISTER_PROP("C17", prop_C17, nullptr);
REGISTER_PROP("C18", prop_C18, nullptr);
