// C05 (every go is answered by exactly one legal bestmove; legal PVs) — with deterministic early stops and table poisoning
// C08 (mates are played; mate announcements are true) — independent exhaustive mate solver
// C09 (search limits are honoured)
#include "../ref/refsolve.h"
#include "searchlib.h"
#include "ucirig.h"
#include "ucisession.h"
#include "../gen/matepool.h"

#include <fstream>
#include <malloc.h>

using namespace engine;

namespace
{
void tune_malloc()
{
    static bool done = false;
    if (done) return;
    done = true;
    mallopt(M_MMAP_THRESHOLD, 256 << 20);
    mallopt(M_TRIM_THRESHOLD, 1 << 30);
}

// positions with at least one legal move
gen::Root root_with_moves(Tape& t, Report& rep, int plies)
{
    for (int i = 0; i < 4; ++i)
    {
        gen::Root r = gen::gen_root(t, &rep, plies);
        if (!ref::legal_moves(r.cur).empty()) return r;
    }
    gen::Root r;
    r.start = r.cur = ref::startpos();
    r.kind = "startpos";
    return r;
}

// many hanging queens: quiescence explodes, depth 1 takes thousands of node visits
ref::Pos explosive(Tape& t, Report& rep)
{
    if (t.chance(1, 3)) return gen::fen_pos("k7/8/1r1q1r1q/b1q1n1q1/1Q1N1Q1B/Q1R1Q1R1/8/7K w - - 0 1");
    for (int i = 0; i < 4; ++i)
    {
        ref::Pos p = gen::gen_fen(t, &rep, 4);
        if (!ref::legal_moves(p).empty()) return p;
    }
    return gen::fen_pos("k7/8/1r1q1r1q/b1q1n1q1/1Q1N1Q1B/Q1R1Q1R1/8/7K w - - 0 1");
}

void set_searchmoves(Tape& t, Position& pos, const std::vector<ref::Move>& legal, Limits& lim, std::vector<std::string>& subset)
{
    // non-empty random subset of the legal root moves
    int n = 1 + int(t.choose(uint32_t(std::min<size_t>(legal.size(), 6))));
    std::vector<int> idx;
    for (int i = 0; i < n; ++i)
    {
        int k = int(t.choose(uint32_t(legal.size())));
        if (std::find(idx.begin(), idx.end(), k) == idx.end()) idx.push_back(k);
    }
    for (int k : idx)
    {
        lim.searchmoves[lim.searchmovesnum++] = pos.parse_uci(legal[k].uci());
        subset.push_back(legal[k].uci());
    }
}

// kings + two to four men out of {pawn, knight, bishop, rarely rook}: every capture is close to a draw by material
ref::Pos tiny_endgame(Tape& t, Report& rep)
{
    for (int attempt = 0; attempt < 6; ++attempt)
    {
        ref::Pos p;
        gen::place_kings(t, p, false);
        int n = 2 + int(t.choose(3));
        for (int i = 0; i < n; ++i)
        {
            char c = "pnbpnbr"[t.choose(7)];
            int s = gen::free_square(t, p, c == 'p');
            if (s < 0) continue;
            p.b[s] = t.flag() ? char(std::toupper(c)) : c;
        }
        p.wtm = !t.flag();
        gen::repair_not_to_move_check(p);
        gen::choose_clocks(t, p);
        if (p.half > 90) p.half = int(t.choose(90));
        if (!ref::domain_violation(p).empty() || ref::legal_moves(p).empty()) continue;
        rep.cls("c05:tiny_endgame");
        return p;
    }
    return gen::gen_fen(t, &rep, 0);
}

// many cheap searches of tiny endgames on one table: legality of bestmove and of every pv
bool c05_tiny_batch(Tape& t, Report& rep, sl::Session& S, std::string& history)
{
    int n = 4 + int(t.choose(8));
    for (int i = 0; i < n; ++i)
    {
        ref::Pos root = tiny_endgame(t, rep);
        std::vector<ref::Move> legal = ref::legal_moves(root);
        if (legal.empty()) continue;
        Position pos = br::from_fen(root);
        Limits lim;
        lim.depth = 2 + int(t.choose(g_tier ? 5 : 4));
        sl::Plan plan;
        plan.cap = 60000;
        std::string desc = "position fen " + ref::to_fen(root) + " ; go depth " + std::to_string(lim.depth);
        history += (history.empty() ? "" : " || ") + desc;
        rep.decoded = history;
        sl::Out o = sl::run(S, pos, lim, plan);
        rep.eval();
        if (o.bestmoves.size() != 1) return rep.fail("go:bestmove_count", std::to_string(o.bestmoves.size()) + " bestmove lines\n session: " + history);
        if (std::find_if(legal.begin(), legal.end(), [&](const ref::Move& m) { return m.uci() == o.bestmoves[0]; }) == legal.end())
            return rep.fail("go:illegal_bestmove", "bestmove " + o.bestmoves[0] + " is not legal in " + ref::to_fen(root) + "\n session: " + history + "\n output:\n" + o.raw);
        for (auto& il : o.infos)
        {
            std::string bad = sl::pv_illegal(root, il.pv);
            if (!bad.empty()) return rep.fail("go:illegal_pv", bad + "\n line: " + il.raw + "\n " + desc + "\n session: " + history);
            if (il.pv.size() >= 6) rep.cls("c05:pv_of_6_or_more_moves_checked");
        }
    }
    return true;
}

// ------------------------------------------------------------------------------------------------
// C05
// ------------------------------------------------------------------------------------------------
bool prop_C05(Tape& t, Report& rep)
{
    br::init_engine();
    tune_malloc();
    if (t.chance(1, 8)) return us::run(t, rep, us::F_C05);
    sl::Session S;
    if (t.chance(1, 3))
    {
        std::string h;
        return c05_tiny_batch(t, rep, S, h);
    }
    int nsearch = 1 + int(t.choose(3));
    std::string history;
    const uint64_t CAP = uint64_t(opt_int("cap", g_tier ? 400000 : 150000));
    for (int si = 0; si < nsearch; ++si)
    {
        gen::Root root;
        bool sparse = false;
        if (t.chance(1, 6))
        {
            root.start = root.cur = explosive(t, rep);
            root.kind = "explosive";
        }
        else if (t.chance(1, 3))
        {
            // sparse endings: captures inside quiescence reach draws by material / repetition, the places where a
            // principal variation is stitched together from partial lines
            for (int k = 0; k < 4; ++k)
            {
                root.start = root.cur = gen::gen_fen(t, &rep, t.flag() ? 0 : 1);
                if (!ref::legal_moves(root.cur).empty()) break;
            }
            root.kind = "sparse";
            sparse = true;
        }
        else if (t.chance(1, 8))
        {
            // castling available (or nearly: path squares occupied / attacked): bestmove and every pv must stay legal
            for (int k = 0; k < 4; ++k)
            {
                root.start = root.cur = gen::theme_castling(t, &rep);
                if (!ref::legal_moves(root.cur).empty()) break;
            }
            root.kind = "castling_theme";
            rep.cls("c05:castling_theme_root");
        }
        else if (t.chance(1, 30))
        {
            // a position at the end of a very long legal game (the search tree crosses the 800th ply)
            root = gen::long_game(t, &rep, 780, 799);
            root.kind = "long_game";
            rep.cls("c05:root_after_780_to_799_plies");
        }
        else
            root = root_with_moves(t, rep, 60);
        std::vector<ref::Move> legal = ref::legal_moves(root.cur);
        if (legal.empty()) continue;
        Position pos = root.kind == "long_game" ? br::replay(root) : br::from_fen(root.cur);
        Limits lim;
        sl::Plan plan;
        plan.cap = CAP;
        plan.nodes_per_ms = 1 + t.choose(2000);
        std::string faults;
        int kind = sparse ? 0 : t.weighted({4, 2, 3, 2, 3});
        if (sparse) rep.cls("c05:sparse_endgame_deeper_search");
        switch (kind)
        {
        case 0: lim.depth = sparse ? 3 + int(t.choose(g_tier ? 4 : 3)) : 1 + int(t.choose(g_tier ? 6 : 4)); break;
        case 1: lim.nodes = 1 + int64_t(t.choose(50000)); break;
        case 2:
        {
            static const int MT[] = {-5, 0, 1, 1, 2, 3, 10, 100};
            lim.movetime = MT[t.choose(8)];
            break;
        }
        case 3:
        {
            static const int TL[] = {1, 2, 10, 100, 1000, 60000, -1};
            lim.timeleft[WHITE] = TL[t.choose(7)];
            lim.timeleft[BLACK] = TL[t.choose(7)];
            lim.timeinc[WHITE] = int(t.choose(3)) * 100;
            lim.timeinc[BLACK] = int(t.choose(3)) * 100;
            lim.movestogo = int(t.choose(3)) * 10;
            break;
        }
        default: lim.infinite = true;
        }
        std::vector<std::string> subset;
        if (t.chance(1, 4)) set_searchmoves(t, pos, legal, lim, subset);
        // fault (a): stop after exactly k node visits
        if (lim.infinite || (!sparse && t.chance(1, 2)))
        {
            uint64_t k = t.chance(1, 2) ? 1 + t.choose(40) : 1 + t.choose(6000);
            plan.stop_at = k;
            faults += " stop@" + std::to_string(k);
        }
        // fault (b): poison the table at the keys of the root, its children and grandchildren
        int poisoned = 0;
        std::string poisonDesc;
        if (!sparse && t.chance(1, 3))
        {
            int np = 1 + int(t.choose(12));
            // both faults together: a poisoned ROOT entry and a stop before the first iteration completes
            const bool coupled = t.chance(1, 2);
            if (coupled)
            {
                plan.stop_at = t.chance(1, 3) ? 1 : 1 + t.choose(30);
                if (faults.find("stop@") == std::string::npos) faults += " stop@" + std::to_string(plan.stop_at);
                rep.cls("c05:poisoned_root_and_early_stop");
            }
            for (int i = 0; i < np; ++i)
            {
                ref::Pos target = root.cur;
                int hops = (coupled && i == 0) ? 0 : int(t.choose(3));
                for (int h = 0; h < hops; ++h)
                {
                    std::vector<ref::Move> ms = ref::legal_moves(target);
                    if (ms.empty()) break;
                    target = ref::make(target, ms[t.choose(uint32_t(ms.size()))]);
                }
                Position tp = br::from_fen(target);
                // scores the engine itself can store: anything from "mated now" to "mate now" (±VALUE_INFINITE is the search's
                // initial bound and never ends up in an entry; a root entry holding it makes the full window "fail", which no
                // table content left by this engine can do)
                static const int64_t SC[] = {0, 1, -1, 500, -500, 100000, VALUE_KNOWN_WIN, -VALUE_KNOWN_WIN, VALUE_MATE, -VALUE_MATE, VALUE_MATE - 3,
                                             -(VALUE_MATE - 3), VALUE_MATE - 40, -(VALUE_MATE - 40)};
                int64_t score = SC[t.choose(14)];
                int depth = int(t.choose(61));
                tt::Flag flag = tt::Flag(t.choose(3));
                // any encodable move: a legal move of the target, a legal move of another position, or arbitrary bits
                Move mv;
                int mk = int(t.choose(4));
                std::vector<ref::Move> tms = ref::legal_moves(target);
                if (mk == 0 && !tms.empty()) mv = tp.parse_uci(tms[t.choose(uint32_t(tms.size()))].uci());
                else if (mk == 1) mv = create_move(Square(t.choose(64)), Square(t.choose(64)));
                else if (mk == 2) mv = t.flag() ? KING_CASTLING_MOVE : QUEEN_CASTLING_MOVE;
                else mv = create_promotion(Square(t.choose(64)), Square(t.choose(64)), PieceKind(2 + t.choose(4)));
                tt::TTEntry e(score, depth, flag, mv);
                if (t.chance(1, 3)) S.ttable->updateEpoch(1);  // some entries belong to an older epoch
                S.ttable->insert(tp.hash(), e);
                ++poisoned;
                poisonDesc += " [" + std::to_string(hops) + " plies below the root: score " + std::to_string(score) + " depth " + std::to_string(depth) + " flag " +
                              std::to_string(int(flag)) + "]";
            }
            faults += " poisoned=" + std::to_string(poisoned) + poisonDesc;
        }
        std::string desc = "position fen " + ref::to_fen(root.cur) + " ; " + sl::limits_str(lim, pos) + faults;
        history += (history.empty() ? "" : " || ") + desc;
        rep.decoded = history;
        sl::Out o = sl::run(S, pos, lim, plan);
        rep.eval();
        if (o.capped) rep.cls("c05:stopped_by_harness_cap");
        bool earlyStop = o.stop_delivered && o.iterations_completed_at_stop == 0;
        if (earlyStop) rep.cls("c05:stop_before_first_iteration_completed");
        if (o.stop_delivered && o.iterations_completed_at_stop > 0) rep.cls("c05:stop_after_some_iteration");
        if (poisoned) rep.cls("c05:searches_with_poisoned_table");
        if (!subset.empty()) rep.cls("c05:searchmoves");
        if (kind == 2 || kind == 3) rep.cls("c05:time_limited");
        if (root.kind == "explosive") rep.cls("c05:explosive_position");
        if (earlyStop || poisoned) rep.nontriv(fnv1a(desc));
        if (earlyStop) rep.sample("c05:early_stop", desc, 2);
        if (poisoned) rep.sample("c05:poisoned", desc, 2);
        if (si > 0) rep.cls("c05:search_on_used_table");

        if (o.bestmoves.size() != 1)
            return rep.fail("go:bestmove_count", std::to_string(o.bestmoves.size()) + " bestmove lines for one go\n session: " + history + "\n output:\n" + o.raw);
        if (o.order.back() != 1) return rep.fail("go:info_after_bestmove", "output continues after bestmove\n session: " + history + "\n output:\n" + o.raw);
        if (o.livelock)
            return rep.fail("go:never_answered:root_re_searched_without_end",
                            "one iteration searched the root " + std::to_string(sl::ROUND_LIMIT) + " times without finishing; without the harness's stop this `go` is never answered\n session: " + history);
        const std::string& bm = o.bestmoves[0];
        bool isLegal = std::find_if(legal.begin(), legal.end(), [&](const ref::Move& m) { return m.uci() == bm; }) != legal.end();
        if (!isLegal)
            return rep.fail(std::string("go:illegal_bestmove") + (bm == "a1a1" ? ":a1a1" : ""),
                            "bestmove " + bm + " is not legal in " + ref::to_fen(root.cur) + "\n session: " + history +
                                "\n stop delivered after " + std::to_string(o.visits_at_stop) + " visits, iterations completed then: " +
                                std::to_string(o.iterations_completed_at_stop) + "\n output:\n" + o.raw);
        // (that the bestmove is one of the searchmoves is C09's statement and is checked there, not here)
        for (auto& il : o.infos)
        {
            std::string bad = sl::pv_illegal(root.cur, il.pv);
            if (!bad.empty()) return rep.fail("go:illegal_pv", bad + "\n line: " + il.raw + "\n session: " + history);
        }
    }
    return true;
}

// ------------------------------------------------------------------------------------------------
// C08
// ------------------------------------------------------------------------------------------------
// back-rank pattern: king on its back rank behind its own pawns, an enemy rook/queen with a clear road to the rank
bool back_rank_candidate(Tape& t, ref::Pos& p)
{
    p = ref::Pos();
    bool w = !t.flag();  // attacker = side to move
    p.wtm = w;
    int br = w ? 7 : 0, pr = w ? 6 : 1;  // victim's back rank / pawn rank
    int kf = int(t.choose(8));
    p.b[ref::SQ(kf, br)] = w ? 'k' : 'K';
    for (int f = std::max(0, kf - 1); f <= std::min(7, kf + 1); ++f)
        if (!t.chance(1, 6)) p.b[ref::SQ(f, pr)] = w ? 'p' : 'P';
    // attacker heavy piece on a file at least two files away from the king, not on the back rank
    int af = int(t.choose(8));
    if (std::abs(af - kf) < 2) af = (kf + 4) % 8;
    int ar = w ? int(t.choose(6)) : 2 + int(t.choose(6));
    char c = t.flag() ? 'r' : 'q';
    p.b[ref::SQ(af, ar)] = w ? char(std::toupper(c)) : c;
    // attacker king far away
    int cand[64], n = 0;
    for (int s = 0; s < 64; ++s)
        if (p.b[s] == '.' && std::abs(ref::RK(s) - br) >= 3 && ref::FL(s) != af) cand[n++] = s;
    if (!n) return false;
    p.b[cand[t.choose(n)]] = w ? 'K' : 'k';
    // a few extras for both sides (may spoil or decorate the pattern)
    int extras = int(t.choose(4));
    for (int i = 0; i < extras; ++i)
    {
        char x = "pnbrq"[t.choose(5)];
        int s = gen::free_square(t, p, x == 'p');
        if (s < 0) continue;
        bool white = t.flag();
        p.b[s] = white ? char(std::toupper(x)) : x;
    }
    return true;
}

ref::Pos mate_in_one_root(Tape& t, Report& rep, bool& found)
{
    found = false;
    ref::Pos last = ref::startpos();
    for (int attempt = 0; attempt < 24; ++attempt)
    {
        ref::Pos p;
        if (t.chance(1, 2))
        {
            if (!back_rank_candidate(t, p)) continue;
            gen::choose_clocks(t, p);
            if (p.half >= 100) p.half = 99;
            gen::enforce_material(p);
            gen::repair_not_to_move_check(p);
            if (!ref::domain_violation(p).empty()) continue;
            if (ref::legal_moves(p).empty()) continue;
            last = p;
            rep.cls("c08:mate1_candidates_tried");
            if (!ref::mates_in_one(p).empty())
            {
                found = true;
                rep.cls("c08:mate1_back_rank_pattern");
                return p;
            }
            continue;
        }
        bool w = !t.flag();  // attacker colour = side to move
        p.wtm = w;
        if (t.chance(1, 4))
        {
            // pawn-mate skeleton: the weak king in a corner behind its own pawn, the attacker's king a knight's move away,
            // an attacker pawn one step from giving check on the neighbouring file (b6-b7# style), plus decoration
            int cf = t.flag() ? 0 : 7, dir = cf == 0 ? 1 : -1;
            auto R = [&](int rel) { return w ? rel : 7 - rel; };
            p.b[ref::SQ(cf, R(7))] = w ? 'k' : 'K';
            if (!t.chance(1, 4)) p.b[ref::SQ(cf, R(6))] = w ? 'p' : 'P';
            p.b[ref::SQ(cf + 2 * dir, R(6))] = w ? 'K' : 'k';
            p.b[ref::SQ(cf + dir, R(5))] = w ? 'P' : 'p';
            int hs = gen::free_square(t, p, false);
            if (hs >= 0) p.b[hs] = w ? "QRBN"[t.choose(4)] : "qrbn"[t.choose(4)];
            if (t.flag())
            {
                int ds = gen::free_square(t, p, true);
                if (ds >= 0) p.b[ds] = w ? 'p' : 'P';
            }
            gen::choose_clocks(t, p);
            if (p.half >= 100) p.half = 99;
            gen::repair_not_to_move_check(p);
            if (!ref::domain_violation(p).empty() || ref::legal_moves(p).empty()) continue;
            last = p;
            rep.cls("c08:mate1_candidates_tried");
            std::vector<ref::Move> mm = ref::mates_in_one(p);
            bool pawnMate = false;
            for (auto& m : mm) pawnMate |= ref::lower(p.b[m.from]) == 'p';
            if (!mm.empty())
            {
                found = true;
                if (pawnMate) rep.cls("c08:mate_in_one_by_pawn_available");
                return p;
            }
            continue;
        }
        // weak king on the edge, strong king two squares away, heavy pieces around
        int ef = int(t.choose(8)), er = t.chance(3, 4) ? (t.flag() ? 0 : 7) : int(t.choose(8));
        if (t.flag()) std::swap(ef, er);
        int wk = ref::SQ(ef & 7, er & 7);
        p.b[wk] = w ? 'k' : 'K';
        int cand[64], n = 0;
        for (int s = 0; s < 64; ++s)
        {
            int d = std::max(std::abs(ref::FL(s) - ref::FL(wk)), std::abs(ref::RK(s) - ref::RK(wk)));
            if (d == 2 || (d > 2 && t.chance(1, 8))) cand[n++] = s;
        }
        if (!n) continue;
        p.b[cand[t.choose(n)]] = w ? 'K' : 'k';
        int np = 2 + int(t.choose(3));
        for (int i = 0; i < np; ++i)
        {
            // attackers within distance 3 of the weak king most of the time
            int cs[64], cn = 0;
            for (int s = 0; s < 64; ++s)
                if (p.b[s] == '.' && std::max(std::abs(ref::FL(s) - ref::FL(wk)), std::abs(ref::RK(s) - ref::RK(wk))) <= 3) cs[cn++] = s;
            int s = (cn && !t.chance(1, 4)) ? cs[t.choose(cn)] : gen::free_square(t, p, false);
            if (s < 0) continue;
            char c = "qrqrbnpp"[t.choose(8)];
            if (c == 'p' && (ref::RK(s) == 0 || ref::RK(s) == 7)) c = 'n';
            p.b[s] = w ? char(std::toupper(c)) : c;
        }
        int nd = int(t.choose(4));
        for (int i = 0; i < nd; ++i)
        {
            char c = "pnbrp"[t.choose(5)];
            int s = gen::free_square(t, p, c == 'p');
            if (s < 0) continue;
            p.b[s] = w ? c : char(std::toupper(c));
        }
        gen::choose_clocks(t, p);
        if (p.half >= 100) p.half = 99;  // roots where the 50-move draw can already be claimed are left out
        gen::enforce_material(p);
        gen::repair_not_to_move_check(p);
        if (!ref::domain_violation(p).empty()) continue;
        if (ref::legal_moves(p).empty()) continue;
        last = p;
        rep.cls("c08:mate1_candidates_tried");
        if (!ref::mates_in_one(p).empty())
        {
            found = true;
            return p;
        }
    }
    return last;
}

// Forcing lines against a boxed-in king: the defender's king sits behind its pawns with a back-rank rook that can be
// captured with check and a piece that can only interpose; the attacker has a knight or queen for a forcing first check.
// The shape in which quiescence meets "in check, only interpositions" nodes and real / false mates are close together.
ref::Pos forcing_back_rank(Tape& t, Report& rep)
{
    for (int attempt = 0; attempt < 8; ++attempt)
    {
        ref::Pos p;
        bool w = !t.flag();  // attacker = side to move
        p.wtm = w;
        auto put = [&](char c, bool white, int f, int relRank) {
            int r = w ? relRank : 7 - relRank;
            if (!ref::on_board(f, r) || p.b[ref::SQ(f, r)] != '.') return false;
            p.b[ref::SQ(f, r)] = white ? char(std::toupper(c)) : c;
            return true;
        };
        // defender (relative ranks from the attacker's side: 7 = defender's back rank)
        int kf = t.flag() ? 6 + int(t.choose(2)) : int(t.choose(2));  // g/h or a/b file
        put('k', !w, kf, 7);
        for (int f = std::max(0, kf - 1); f <= std::min(7, kf + 1); ++f)
            if (!t.chance(1, 5)) put('p', !w, f, 6);
        int rf = kf >= 4 ? 1 + int(t.choose(4)) : 3 + int(t.choose(4));
        put('r', !w, rf, 7);  // the rook that can be taken with check
        // an interposer: bishop / knight / queen / rook somewhere it may reach the back rank
        for (int i = 0, n = 1 + int(t.choose(2)); i < n; ++i) put("bnqrb"[t.choose(5)], !w, int(t.choose(8)), 3 + int(t.choose(4)));
        // attacker: heavy piece on the rook's file, a knight / queen near the king, king at home
        put(t.flag() ? 'r' : 'q', w, rf, int(t.choose(4)));
        put('n', w, std::min(7, std::max(0, kf + (kf >= 4 ? -1 - int(t.choose(3)) : 1 + int(t.choose(3))))), 4 + int(t.choose(2)));
        if (t.flag()) put('q', w, int(t.choose(8)), 1 + int(t.choose(4)));
        if (t.flag()) put('p', w, std::min(7, std::max(0, kf + (kf >= 4 ? -2 : 2))), 5);  // a pawn wedge next to the king
        put('k', w, kf >= 4 ? 6 : 1, 0);
        for (int f = 5; f < 8; ++f)
            if (t.flag()) put('p', w, kf >= 4 ? f : 7 - f, 1);
        gen::choose_clocks(t, p);
        if (p.half >= 100) p.half = 99;
        gen::enforce_material(p);
        gen::repair_not_to_move_check(p);
        if (!ref::domain_violation(p).empty()) continue;
        if (ref::legal_moves(p).empty()) continue;
        rep.cls("c08:forcing_back_rank_constructed");
        return p;
    }
    return gen::theme_checks(t, &rep);
}

// one depth-limited search checked against both halves of the property; returns false on a violation
std::vector<std::string> g_c08_last_pv;  // pv of the final info line of the most recent c08 search

bool c08_one(sl::Session& S, const ref::Pos& root, const std::string& kind, int depth, std::string& history, Report& rep)
{
    g_c08_last_pv.clear();
    std::vector<ref::Move> legal = ref::legal_moves(root);
    if (legal.empty()) return true;
    Position pos = br::from_fen(root);
    Limits lim;
    lim.depth = depth;
    sl::Plan plan;
    plan.cap = uint64_t(opt_int("cap", g_tier ? 600000 : 120000));
    plan.virtual_clock = true;
    plan.nodes_per_ms = 1;  // irrelevant: depth-limited searches have an infinite time budget
    std::string desc = "position fen " + ref::to_fen(root) + " ; go depth " + std::to_string(lim.depth) + " [" + kind + "]";
    history += (history.empty() ? "" : " || ") + desc;
    rep.decoded = history;
    sl::Out o = sl::run(S, pos, lim, plan);
    rep.eval();
    if (o.capped)
    {
        rep.cls("c08:inconclusive_visit_cap");
        return true;
    }
    if (o.bestmoves.size() != 1) return true;  // C05's concern
    if (!o.infos.empty()) g_c08_last_pv = o.infos.back().pv;
    // (1) a mate in one must be played
    std::vector<ref::Move> m1 = ref::mates_in_one(root);
    bool nontrivial = false;
    if (!m1.empty())
    {
        nontrivial = true;
        rep.cls("c08:mate_in_one_available");
        if (root.half >= 90) rep.cls("c08:mate_in_one_high_clock");
        bool played = std::find_if(m1.begin(), m1.end(), [&](const ref::Move& m) { return m.uci() == o.bestmoves[0]; }) != m1.end();
        rep.sample("c08:mate_in_one", desc + " -> " + o.bestmoves[0], 2);
        if (!played)
            return rep.fail("mate:mate_in_one_not_played",
                            "a mate in one exists (" + m1[0].uci() + ") but bestmove is " + o.bestmoves[0] + "\n " + desc + "\n session: " + history +
                                "\n output:\n" + o.raw);
    }
    // (2) the final info line's mate announcement must be true
    if (!o.infos.empty() && o.infos.back().mate)
    {
        nontrivial = true;
        long long y = o.infos.back().score;
        rep.cls("c08:mate_announcements");
        rep.cls(y > 0 ? "c08:announce_win" : (y < 0 ? "c08:announce_loss" : "c08:announce_zero"));
        rep.sample("c08:announcement", desc + " -> " + o.infos.back().raw, 3);
        ref::MateSolver ms;
        ms.budget = uint64_t(opt_int("solver_nodes", g_tier ? 2000000 : 150000));
        int verdict;  // 1 true, 0 proven false, -1 undecided
        if (y == 0)
            verdict = 0;  // the root has legal moves: nobody is mated in zero moves
        else if (y > 0)
        {
            verdict = 0;
            int maxPlies = int(std::min<long long>(2 * y - 1, opt_int("solver_plies", 7)));
            bool complete = maxPlies == 2 * y - 1;
            for (int n = 1; n <= maxPlies; n += 2)
            {
                int r = ms.attacker_mates(root, n);
                if (r == 1) { verdict = 1; break; }
                if (r < 0) { verdict = -1; break; }
            }
            if (verdict == 0 && !complete) verdict = -1;
        }
        else
        {
            verdict = 0;
            int maxPlies = int(std::min<long long>(2 * (-y), opt_int("solver_plies", 7) + 1));
            bool complete = maxPlies == 2 * (-y);
            for (int n = 2; n <= maxPlies; n += 2)
            {
                int r = ms.defender_mated(root, n);
                if (r == 1) { verdict = 1; break; }
                if (r < 0) { verdict = -1; break; }
            }
            if (verdict == 0 && !complete) verdict = -1;
        }
        if (verdict < 0) rep.cls("c08:announcement_undecided_beyond_solver_horizon");
        if (verdict == 1) rep.cls("c08:announcement_confirmed");
        if (verdict == 0)
            return rep.fail(std::string("mate:false_announcement") + (y == 0 ? ":mate0" : ""),
                            "final info line announces 'score mate " + std::to_string(y) + "' but the exhaustive solver finds no such forced mate\n " +
                                desc + "\n line: " + o.infos.back().raw + "\n session: " + history + "\n output:\n" + o.raw);
    }
    if (nontrivial) rep.nontriv(fnv1a(desc));
    rep.cls("c08:kind_" + kind);
    return true;
}

bool prop_C08(Tape& t, Report& rep)
{
    br::init_engine();
    tune_malloc();
    {
        // plain regression witnesses (corpus/witness/C08.txt: "<fen> ; <depth>"): the shrunk inputs of repaired findings, run
        // through the same oracle without any generator in between, once per process
        static bool witnessesDone = false;
        if (!witnessesDone)
        {
            witnessesDone = true;
            std::ifstream wf(opt("witness_dir", "/verif/corpus/witness") + "/C08.txt");
            std::string line;
            sl::Session WS;
            std::string wh;
            while (std::getline(wf, line))
            {
                if (line.empty() || line[0] == '#') continue;
                auto sc = line.find(';');
                if (sc == std::string::npos) continue;
                ref::Pos wp;
                std::string fen = line.substr(0, sc);
                while (!fen.empty() && fen.back() == ' ') fen.pop_back();
                if (!ref::from_fen(fen, wp) || !ref::domain_violation(wp).empty()) continue;
                int d = atoi(line.c_str() + sc + 1);
                rep.cls("c08:regression_witness");
                sl::Session fresh;
                if (!c08_one(fresh, wp, "regression_witness", std::max(1, d), wh, rep)) return false;
            }
        }
    }
    if (t.chance(1, 6)) return us::run(t, rep, us::F_C08);
    sl::Session S;
    std::string history;
    const int MAXD = g_tier ? 5 : 4;
    if (t.chance(1, 5))
    {
        // mates in one by a SPECIAL move (en passant incl. discovered, promotions, castling, discovered / double check):
        // the moves whose effect on the board is not "one piece goes from a to b"
        const mp::Pool& P = mp::pool(uint64_t(opt_int("zseed", 1)), opt_int("matepool_tries", 150000), size_t(opt_int("matepool_cap", 16)));
        static bool counted = false;
        if (!counted)
        {
            counted = true;
            for (int k = 0; k < mp::NKIND; ++k) rep.cls(std::string("c08:matepool_") + mp::KNAME[k], P.k[k].size());
        }
        int n = 4 + int(t.choose(6));
        for (int i = 0; i < n; ++i)
        {
            int k = int(t.choose(mp::NKIND));
            if (P.k[k].empty()) continue;
            const mp::Entry& e = P.k[k][t.choose(uint32_t(P.k[k].size()))];
            rep.cls(std::string("c08:special_mate_") + mp::KNAME[k]);
            if (!c08_one(S, e.p, std::string("special_move_mate:") + mp::KNAME[k], 1 + int(t.choose(uint32_t(MAXD))), history, rep)) return false;
        }
        return true;
    }
    if (t.chance(1, 6))
    {
        // a search that is interrupted (stop / node budget arriving in the middle of an iteration) and then the SAME position
        // searched again on the same table without anything in between: what the interrupted search left in the table must
        // not keep the complete search from playing the mate
        const mp::Pool& P = mp::pool(uint64_t(opt_int("zseed", 1)), opt_int("matepool_tries", 150000), size_t(opt_int("matepool_cap", 16)));
        int n = 3 + int(t.choose(4));
        for (int i = 0; i < n; ++i)
        {
            ref::Pos root;
            bool found = false;
            if (t.flag())
            {
                int k = int(t.choose(mp::NKIND));
                if (!P.k[k].empty())
                {
                    root = P.k[k][t.choose(uint32_t(P.k[k].size()))].p;
                    found = true;
                }
            }
            if (!found) root = mate_in_one_root(t, rep, found);
            if (ref::legal_moves(root).empty()) continue;
            Position pos = br::from_fen(root);
            Limits lim;
            lim.depth = 6;
            sl::Plan plan;
            plan.stop_at = 1 + (t.flag() ? t.choose(60) : t.choose(3000));
            plan.cap = 200000;
            history += (history.empty() ? "" : " || ") + std::string("position fen ") + ref::to_fen(root) + " ; go depth 6 (stopped after " + std::to_string(plan.stop_at) + " node visits)";
            sl::run(S, pos, lim, plan);
            rep.cls("c08:interrupted_search_then_the_same_root_again");
            if (!c08_one(S, root, "same_root_after_an_interrupted_search", 1 + int(t.choose(3)), history, rep)) return false;
        }
        return true;
    }
    if (t.chance(1, 4))
    {
        // a batch of cheap shallow searches of forcing back-rank positions: quiescence meets in-check nodes whose only
        // evasions are interpositions, the place where real and false mates are closest
        int n = 6 + int(t.choose(10));
        for (int i = 0; i < n; ++i)
        {
            ref::Pos root = forcing_back_rank(t, rep);
            if (!c08_one(S, root, "forcing_back_rank", 1 + int(t.choose(3)), history, rep)) return false;
        }
        return true;
    }
    if (t.chance(1, 4))
    {
        // game flow on one table: search a (near-)mating position, then follow the announced line for two plies and search
        // again, and again — every later search reads entries that the earlier ones wrote at another distance from the root
        // heavy pieces against an (almost) bare king on the edge with no mate in one: forced mates of two to four moves,
        // which a depth 3-5 search finds and then has to follow up move by move
        ref::Pos root = forcing_back_rank(t, rep);
        for (int attempt = 0; attempt < 6; ++attempt)
        {
            ref::Pos p;
            bool w = !t.flag();
            p.wtm = w;
            int ef = int(t.choose(8)), er = t.flag() ? 0 : 7;
            if (t.flag()) std::swap(ef, er);
            int wk = ref::SQ(ef & 7, er & 7);
            p.b[wk] = w ? 'k' : 'K';
            int sk = gen::free_square(t, p, false);
            if (sk < 0 || std::max(std::abs(ref::FL(sk) - ref::FL(wk)), std::abs(ref::RK(sk) - ref::RK(wk))) < 2) continue;
            p.b[sk] = w ? 'K' : 'k';
            const char* sets[] = {"q", "rr", "qr", "r", "qb", "rn"};
            for (const char* c = sets[t.choose(6)]; *c; ++c)
            {
                int s = gen::free_square(t, p, false);
                if (s >= 0) p.b[s] = w ? char(std::toupper(*c)) : *c;
            }
            if (t.chance(1, 3))
            {
                int s = gen::free_square(t, p, true);
                if (s >= 0) p.b[s] = w ? 'p' : 'P';  // a defender's pawn: no stalemate tricks, a move to spare
            }
            gen::repair_not_to_move_check(p);
            if (!ref::domain_violation(p).empty() || ref::legal_moves(p).empty() || !ref::mates_in_one(p).empty()) continue;
            root = p;
            rep.cls("c08:game_flow_multi_move_root");
            break;
        }
        int steps = 2 + int(t.choose(3));
        for (int s = 0; s < steps; ++s)
        {
            if (ref::legal_moves(root).empty()) break;
            if (!c08_one(S, root, s == 0 ? "game_flow_first" : "game_flow_successor", s == 0 ? 3 + int(t.choose(uint32_t(MAXD - 2))) : 1 + int(t.choose(3)), history, rep)) return false;
            std::vector<std::string> pv = g_c08_last_pv;
            for (int k = 0; k < 2; ++k)
            {
                std::vector<ref::Move> lm = ref::legal_moves(root);
                if (lm.empty()) break;
                auto it = k < int(pv.size()) ? std::find_if(lm.begin(), lm.end(), [&](const ref::Move& m) { return m.uci() == pv[size_t(k)]; }) : lm.end();
                root = ref::make(root, it != lm.end() ? *it : lm[t.choose(uint32_t(lm.size()))]);
            }
        }
        return true;
    }
    int nsearch = 1 + int(t.choose(3));
    ref::Pos prevRoot = ref::startpos();
    for (int si = 0; si < nsearch; ++si)
    {
        ref::Pos root;
        std::string kind;
        int mode = t.weighted({4, 2, 2, 4, 1, 0, 3});
        if (si > 0 && t.chance(1, 3)) mode = 5;  // search the same root again at another depth on the used table
        if (mode == 0 && t.chance(1, 3))
        {
            root = forcing_back_rank(t, rep);
            kind = "forcing_back_rank";
        }
        else if (mode == 0)
        {
            bool found;
            root = mate_in_one_root(t, rep, found);
            kind = found ? "mate_in_one" : "near_mate";
        }
        else if (mode == 1)
        {
            root = root_with_moves(t, rep, 60).cur;
            kind = "general";
        }
        else if (mode == 2)
        {
            root = gen::theme_checks(t, &rep);
            kind = "checks";
        }
        else if (mode == 3)
        {
            // sparse endgames: the shape where a node can have every move skipped by futility pruning
            root = gen::gen_fen(t, &rep, t.flag() ? 0 : (t.flag() ? 1 : 6));
            kind = "sparse_endgame";
        }
        else if (mode == 4)
        {
            root = gen::fen_pos(gen::CATALOG[t.choose(gen::CATALOG_N)]);
            kind = "catalogue";
        }
        else if (mode == 6)
        {
            // overwhelming material: three to five queens against a king with a few minor pieces or pawns.  The weak side's
            // nodes are the ones in which EVERY move is quiet and hopeless (all of them futility-pruned), next to real mates
            bool strongWhite = t.flag();
            ref::Pos p;
            for (int attempt = 0; attempt < 6; ++attempt)
            {
                p = ref::Pos();
                gen::place_kings(t, p, false);
                int nq = 3 + int(t.choose(3));
                for (int i = 0; i < nq; ++i)
                {
                    int sq = gen::free_square(t, p, false);
                    if (sq >= 0) p.b[sq] = strongWhite ? 'Q' : 'q';
                }
                int nw = int(t.choose(4));
                for (int i = 0; i < nw; ++i)
                {
                    char c = "nnbp"[t.choose(4)];
                    int sq = gen::free_square(t, p, c == 'p');
                    if (sq >= 0) p.b[sq] = strongWhite ? c : char(std::toupper((unsigned char)c));
                }
                p.wtm = t.flag();
                gen::repair_not_to_move_check(p);
                if (ref::domain_violation(p).empty() && !ref::legal_moves(p).empty()) break;
            }
            if (!ref::domain_violation(p).empty()) p = ref::startpos();
            root = p;
            kind = "overwhelming_material";
        }
        else if (t.flag())
        {
            root = prevRoot;
            kind = "same_root_again";
        }
        else
        {
            // the normal game flow: the position one or two plies further on the SAME table (entries written for this
            // position at another distance from the root are now read)
            root = prevRoot;
            int plies = 1 + int(t.choose(2));
            std::vector<std::string> pv = g_c08_last_pv;
            for (int k = 0; k < plies; ++k)
            {
                std::vector<ref::Move> lm = ref::legal_moves(root);
                if (lm.empty()) break;
                // the game usually continues along the line the engine has just announced
                if (k < int(pv.size()) && !t.chance(1, 4))
                {
                    auto it = std::find_if(lm.begin(), lm.end(), [&](const ref::Move& m) { return m.uci() == pv[size_t(k)]; });
                    if (it != lm.end())
                    {
                        root = ref::make(root, *it);
                        continue;
                    }
                }
                // prefer the continuation a search would expect: checks and captures first
                std::stable_sort(lm.begin(), lm.end(), [&](const ref::Move& a, const ref::Move& b) {
                    return int(ref::gives_check(root, a)) * 2 + int(ref::is_capture(root, a)) > int(ref::gives_check(root, b)) * 2 + int(ref::is_capture(root, b));
                });
                root = ref::make(root, t.chance(1, 2) ? lm[0] : lm[t.choose(uint32_t(lm.size()))]);
            }
            kind = "successor_on_warm_table";
        }
        if (ref::legal_moves(root).empty()) continue;
        prevRoot = root;
        if (!c08_one(S, root, kind, 1 + int(t.choose(uint32_t(MAXD))), history, rep)) return false;
    }
    return true;
}

// ------------------------------------------------------------------------------------------------
// C09
// ------------------------------------------------------------------------------------------------
ref::Pos instant_position(Tape& t)
{
    // every child is a draw by material (or the root has a single reply): any depth finishes at once
    static const char* L[] = {"4k3/8/8/8/8/8/8/4K3 w - - 0 1",  "8/8/3k4/8/8/4K3/8/8 b - - 0 1",      "4k3/8/8/8/8/8/8/4KN2 w - - 0 1",
                              "4kb2/8/8/8/8/8/8/4K3 b - - 0 1", "7k/8/8/8/8/8/8/K6N w - - 12 40", "k7/8/8/8/8/8/8/1K5B b - - 0 1"};
    ref::Pos p;
    ref::from_fen(L[t.choose(6)], p);
    // random king squares for variety
    if (t.chance(1, 2))
    {
        ref::Pos q;
        gen::place_kings(t, q, false);
        if (t.flag())
        {
            int s = gen::free_square(t, q, false);
            q.b[s] = "NBnb"[t.choose(4)];
        }
        q.wtm = !t.flag();
        gen::repair_not_to_move_check(q);
        if (ref::domain_violation(q).empty() && !ref::legal_moves(q).empty()) p = q;
    }
    return p;
}

// ---- C09 at the UCI level: sequences of `go` commands of different kinds in one engine process, under the virtual clock.
// Each search must honour ITS OWN limits (nothing may leak from an earlier `go`), a depth limit must hold also when a time
// limit is given in the same command, and a clock search must end within 70% of the mover's remaining time (C20 seen from outside).
struct UciSeq
{
    std::atomic<uint64_t> visits{0};
    std::atomic<uint64_t> rate{100};
    std::atomic<uint64_t> cap{900000};
};
UciSeq& useq()
{
    static UciSeq u;
    return u;
}
void useq_cb(int point, Search* s)
{
    if (point != verif::NODE && point != verif::QNODE) return;
    UciSeq& U = useq();
    uint64_t v = U.visits.fetch_add(1, std::memory_order_relaxed) + 1;
    verif::virtual_elapsed_ms = int64_t(v / U.rate.load(std::memory_order_relaxed));
    uint64_t cap = U.cap.load(std::memory_order_relaxed);
    if (v == cap || (v > cap && (v - cap) % 50000 == 0)) s->stop();
}

bool c09_uci_sequence(Tape& t, Report& rep)
{
    rigns::Rig& R = rigns::rig();
    UciSeq& U = useq();
    verif::virtual_clock = true;
    verif::callback = &useq_cb;
    const uint64_t SLACK = 70000;  // limits are polled every 40,960 visits; unwinding costs a few thousand more
    U.rate = 80 + t.choose(80);
    U.cap = 700000;
    R.send("ucinewgame");
    std::string history;
    int n = 2 + int(t.choose(2));
    for (int i = 0; i < n; ++i)
    {
        ref::Pos root = root_with_moves(t, rep, 40).cur;
        if (ref::legal_moves(root).empty()) continue;
        int kind = t.weighted({3, 3, 2, 2, 1});
        std::string go = "go";
        uint64_t budget_ms = 0;  // 0 = no time budget to check
        int depthLimit = 0;
        static const int MT[] = {1000, 2000, 3000, 3000};
        static const int CL[] = {1000, 1000, 3000, 10000};
        if (kind == 0)
        {
            int mt = MT[t.choose(4)];
            go += " movetime " + std::to_string(mt);
            budget_ms = uint64_t(mt);
        }
        else if (kind == 1)
        {
            int w = CL[t.choose(4)], b = CL[t.choose(4)];
            int inc = int(t.choose(3)) * 100;
            go += " wtime " + std::to_string(w) + " btime " + std::to_string(b) + " winc " + std::to_string(inc) + " binc " + std::to_string(inc);
            if (t.flag()) go += " movestogo " + std::to_string(1 + t.choose(40));
            budget_ms = uint64_t((root.wtm ? w : b) * 7 / 10);
        }
        else if (kind == 2)
        {
            depthLimit = 1 + int(t.choose(4));
            go += " depth " + std::to_string(depthLimit);
        }
        else if (kind == 3)
        {
            // depth together with a time limit: the depth limit must still hold (that both limits bind is C20's concern and
            // is checked by its search-level mode; C09 only requires iterations <= d and termination)
            depthLimit = 1 + int(t.choose(3));
            if (t.flag())
                go += " depth " + std::to_string(depthLimit) + " movetime " + std::to_string(MT[t.choose(4)]);
            else
            {
                int c = CL[t.choose(4)];
                go += " depth " + std::to_string(depthLimit) + " wtime " + std::to_string(c) + " btime " + std::to_string(c) + " winc 0 binc 0";
            }
        }
        else
            go += " nodes " + std::to_string(1000 + t.choose(20000));
        std::string desc = "position fen " + ref::to_fen(root) + " ; " + go;
        history += (history.empty() ? "" : " || ") + desc;
        rep.decoded = "uci sequence (virtual clock " + std::to_string(U.rate.load()) + " visits/ms): " + history;
        size_t mark = R.out.size();
        R.send("position fen " + ref::to_fen(root));
        U.visits = 0;
        R.send(go);
        long bm = R.out.wait_line(mark, rigns::is_bestmove, 300000);
        rep.eval();
        rep.cls("c09:uci_sequence_go");
        if (i > 0) rep.cls("c09:uci_go_after_another_go");
        if (kind == 3) rep.cls("c09:uci_depth_and_time_together");
        uint64_t v = U.visits.load();
        if (bm < 0)
        {
            R.send("stop");
            R.out.wait_line(mark, rigns::is_bestmove, 300000);
            return rep.fail("limits:uci:no_bestmove", "no bestmove within the safety timeout\n " + rep.decoded);
        }
        rep.nontriv(fnv1a(desc + std::to_string(i)));
        if (i == 1) rep.sample("c09:uci_sequence", rep.decoded, 2);
        int maxDepth = 0, nb = 0;
        for (auto& l : R.out.snapshot(mark))
        {
            if (rigns::is_bestmove(l)) ++nb;
            if (l.rfind("info depth ", 0) == 0) maxDepth = std::max(maxDepth, atoi(l.c_str() + 11));
        }
        if (nb != 1) return rep.fail("limits:uci:bestmove_count", std::to_string(nb) + " bestmove lines\n " + rep.decoded);
        if (depthLimit && maxDepth > depthLimit)
            return rep.fail("limits:uci:deeper_than_requested", "iteration " + std::to_string(maxDepth) + " reported for '" + go + "'\n " + rep.decoded);
        if (budget_ms && v > budget_ms * U.rate.load() + SLACK)
            return rep.fail("limits:uci:time_budget_exceeded",
                            "'" + go + "' ran for " + std::to_string(v) + " node visits = " + std::to_string(v / U.rate.load()) + " virtual ms; its own budget is " +
                                std::to_string(budget_ms) + " ms (+ " + std::to_string(SLACK) + " visits of polling slack)\n " + rep.decoded);
    }
    return true;
}

bool prop_C09(Tape& t, Report& rep)
{
    br::init_engine();
    tune_malloc();
    if (t.chance(1, 10)) return us::run(t, rep, us::F_C09);
    if (t.chance(1, 20)) return c09_uci_sequence(t, rep);
    sl::Session S;
    int nsearch = 1 + int(t.choose(2));
    std::string history;
    for (int si = 0; si < nsearch; ++si)
    {
        int mode = t.weighted({4, 3, 3, 2});
        ref::Pos root;
        Limits lim;
        sl::Plan plan;
        plan.cap = uint64_t(opt_int("cap", g_tier ? 1500000 : 400000));
        plan.nodes_per_ms = 1 + t.choose(500);
        std::string kind;
        bool excluded_deep = false;
        bool deeperRestricted = false;
        if (mode == 3)
        {
            // deeper searches of a restricted root: from iteration 3 on the root is searched in an aspiration window, and a
            // restricted root has no table entry of its own to lean on between re-searches
            root = t.flag() ? root_with_moves(t, rep, 40).cur : gen::gen_fen(t, &rep, t.flag() ? 1 : 2);
            lim.depth = 5 + int(t.choose(3));
            kind = "depth_5_to_7_restricted_root";
            deeperRestricted = true;
        }
        else if (mode == 0)
        {
            root = root_with_moves(t, rep, 60).cur;
            lim.depth = 1 + int(t.choose(g_tier ? 6 : 4));
            kind = "depth_ordinary";
        }
        else if (mode == 1)
        {
            root = instant_position(t);
            lim.depth = t.chance(1, 4) ? 1 + int(t.choose(40)) : 41 + int(t.choose(60));
            if (t.chance(1, 6)) lim.depth = 40 + int(t.choose(3));  // the boundary itself
            kind = lim.depth > 40 ? "depth_above_internal_maximum" : "depth_instant";
            // a recorded known finding may exclude this region by construction (counted)
            if (lim.depth > 40 && opt("exclude_depth_above_40") == "1")
            {
                rep.cls("c09:excluded_depth_above_40");
                lim.depth = 40;
                excluded_deep = true;
            }
        }
        else
        {
            root = root_with_moves(t, rep, 60).cur;
            static const int MT[] = {1, 2, 5, 20, 100};
            if (t.flag()) lim.movetime = MT[t.choose(5)];
            else
            {
                lim.timeleft[WHITE] = lim.timeleft[BLACK] = MT[t.choose(5)] * 10;
                lim.timeinc[WHITE] = lim.timeinc[BLACK] = int(t.choose(2)) * 10;
            }
            kind = "time_limited";
        }
        (void)excluded_deep;
        std::vector<ref::Move> legal = ref::legal_moves(root);
        if (legal.empty()) continue;
        Position pos = br::from_fen(root);
        std::vector<std::string> subset;
        bool warmed = false;
        if (deeperRestricted)
        {
            if (legal.size() < 3) continue;
            set_searchmoves(t, pos, legal, lim, subset);
            while (subset.size() > 3)
            {
                subset.pop_back();
                --lim.searchmovesnum;
            }
            for (size_t k = 0; subset.size() < 2 && k < legal.size(); ++k)
                if (std::find(subset.begin(), subset.end(), legal[k].uci()) == subset.end())
                {
                    lim.searchmoves[lim.searchmovesnum++] = pos.parse_uci(legal[k].uci());
                    subset.push_back(legal[k].uci());
                }
        }
        else if (mode != 1 && t.chance(1, 2))
        {
            // warm the table with a full-width search of the same root: the root entry then names the overall best move,
            // which may lie outside the subset searched next
            if (t.chance(1, 2) && lim.depth)
            {
                Limits w;
                w.depth = lim.depth + int(t.choose(2));
                sl::Plan wp = plan;
                sl::Out wo = sl::run(S, pos, w, wp);
                warmed = !wo.capped;
                history += (history.empty() ? "" : " || ") + std::string("position fen ") + ref::to_fen(root) + " ; go depth " + std::to_string(w.depth) + " (warm-up)";
            }
            set_searchmoves(t, pos, legal, lim, subset);
        }
        std::string desc = "position fen " + ref::to_fen(root) + " ; " + sl::limits_str(lim, pos);
        history += (history.empty() ? "" : " || ") + desc;
        rep.decoded = history;
        sl::Out o = sl::run(S, pos, lim, plan);
        rep.eval();
        rep.cls("c09:" + kind);
        if (legal.size() == 1) rep.cls("c09:single_legal_move_root");
        if (!subset.empty()) rep.cls(warmed ? "c09:searchmoves_on_warmed_table" : "c09:searchmoves");
        if (lim.depth > 40 || legal.size() == 1 || !subset.empty()) rep.nontriv(fnv1a(desc));
        if (lim.depth > 40) rep.sample("c09:depth>40", desc, 2);
        if (!subset.empty()) rep.sample("c09:searchmoves", desc, 2);
        if (o.max_root_searches_in_one_iteration > 1) rep.cls("c09:iteration_with_root_re_search");
        if (o.livelock)
            return rep.fail("limits:does_not_terminate:root_re_searched_without_end",
                            "one iteration searched the root " + std::to_string(sl::ROUND_LIMIT) + " times (aspiration re-searches) without finishing: the search does not terminate on its own\n " + desc +
                                "\n session: " + history);
        if (o.capped)
        {
            rep.cls("c09:inconclusive_visit_cap");
            if (kind == "time_limited")
            {
                // virtual time budget exhausted long ago and the search is still running: it does not terminate on its own
                uint64_t budget_ms = uint64_t(lim.movetime ? lim.movetime : std::max(lim.timeleft[WHITE], lim.timeleft[BLACK]));
                if (o.visits > budget_ms * plan.nodes_per_ms + 150000)
                    return rep.fail("limits:time_not_honoured", "time-limited search still running " + std::to_string(o.visits) + " visits in (virtual clock " +
                                                                    std::to_string(plan.nodes_per_ms) + " visits/ms)\n " + desc);
            }
            continue;
        }
        if (o.bestmoves.size() != 1) continue;  // C05's concern
        // info depth sequence: 1,2,...,m consecutive, m <= d, bestmove after the last one
        int expect = 1;
        for (auto& il : o.infos)
        {
            if (il.depth != expect)
                return rep.fail("limits:depth_sequence", "info depth sequence is not 1,2,... consecutive (got " + std::to_string(il.depth) + " where " +
                                                             std::to_string(expect) + " was expected)\n " + desc + "\n output:\n" + o.raw);
            ++expect;
        }
        if (lim.depth && expect - 1 > lim.depth)
            return rep.fail("limits:deeper_than_requested", "iteration " + std::to_string(expect - 1) + " reported for go depth " + std::to_string(lim.depth) + "\n " + desc);
        if (o.order.empty() || o.order.back() != 1) return rep.fail("limits:bestmove_not_last", "bestmove is not the last line\n" + o.raw);
        if (!subset.empty() && std::find(subset.begin(), subset.end(), o.bestmoves[0]) == subset.end())
            return rep.fail("limits:bestmove_outside_searchmoves", "bestmove " + o.bestmoves[0] + " is not one of the searchmoves\n " + desc + "\n session: " + history +
                                                                       "\n output:\n" + o.raw);
    }
    return true;
}

}  // namespace

// C20 seen where it matters: what the SEARCH does with the clock.  `go wtime W btime B [winc/binc] [movestogo] [depth d]`
// on the in-process Uci::loop under the virtual clock; the thinking time is the number of node visits until `bestmove`
// divided by the clock rate, and it must stay within 70% of the mover's remaining time (plus the polling granularity of
// the engine's limit check: first poll after 4,096 visits, then every 40,960, plus unwinding).  Scenarios the allocation
// function alone does not show: a root with a single legal reply, a remaining time of 0, a depth limit given together with
// the clock.  (Called from prop_C20 in exh_tables.cpp.)
bool c20_uci_budget(Tape& t, Report& rep)
{
    br::init_engine();
    rigns::Rig& R = rigns::rig();
    UciSeq& U = useq();
    verif::virtual_clock = true;
    verif::callback = &useq_cb;
    U.rate = 200;
    int scenario = t.weighted({3, 2, 2, 2});
    ref::Pos root;
    bool haveRoot = false;
    for (int attempt = 0; attempt < 40 && !haveRoot; ++attempt)
    {
        ref::Pos p = scenario == 0 ? (t.flag() ? gen::theme_checks(t, &rep) : gen::theme_ep_evasion(t, &rep)) : root_with_moves(t, rep, 40).cur;
        size_t n = ref::legal_moves(p).size();
        if (scenario == 0 ? n == 1 : n >= 8)
        {
            root = p;
            haveRoot = true;
        }
    }
    if (!haveRoot) return true;
    static const int TIMES[] = {10, 50, 100, 300, 700, 1000};
    int mine = scenario == 1 ? 0 : TIMES[t.choose(6)], theirs = t.flag() ? 60000 : TIMES[t.choose(6)];
    int inc = t.chance(1, 3) ? 100 : 0;
    std::string go = std::string("go wtime ") + std::to_string(root.wtm ? mine : theirs) + " btime " + std::to_string(root.wtm ? theirs : mine) + " winc " + std::to_string(inc) +
                     " binc " + std::to_string(inc);
    if (t.chance(1, 3)) go += " movestogo " + std::to_string(1 + t.choose(40));
    if (scenario == 2) go = "go depth " + std::to_string(20 + t.choose(20)) + go.substr(2);
    const uint64_t allowed = uint64_t(mine) * 7 / 10 * U.rate.load() + 4096 + 40960 + 6000;
    U.cap = allowed * 3 + 100000;
    R.send("ucinewgame");
    R.send("setoption name Polyglot Book value /nonexistent-verif-book");
    size_t mark = R.out.size();
    R.send("position fen " + ref::to_fen(root));
    U.visits = 0;
    R.send(go);
    long bm = R.out.wait_line(mark, rigns::is_bestmove, 300000);
    rep.eval();
    static const char* SC[] = {"single_legal_reply", "remaining_time_zero", "depth_limit_together_with_the_clock", "ordinary"};
    rep.cls(std::string("c20:uci_budget_") + SC[scenario]);
    rep.decoded = "position fen " + ref::to_fen(root) + " ; " + go + " (virtual clock " + std::to_string(U.rate.load()) + " visits/ms)";
    uint64_t v = U.visits.load();
    if (bm < 0)
    {
        R.send("stop");
        R.out.wait_line(mark, rigns::is_bestmove, 300000);
    }
    verif::callback = nullptr;
    verif::virtual_clock = false;
    rep.nontriv(fnv1a(rep.decoded));
    rep.sample(std::string("c20:uci_budget_") + SC[scenario], rep.decoded + " -> " + std::to_string(v / U.rate.load()) + " ms", 2);
    if (v > allowed)
        return rep.fail(std::string("time:search_exceeds_70_percent:") + SC[scenario],
                        "the search thought for " + std::to_string(v / U.rate.load()) + " virtual ms (" + std::to_string(v) + " node visits) with " + std::to_string(mine) +
                            " ms left on the mover's clock; 70% of that is " + std::to_string(mine * 7 / 10) + " ms (allowed incl. polling granularity: " + std::to_string(allowed) + " visits)\n " + rep.decoded);
    return true;
}

REGISTER_PROP("C05", prop_C05, nullptr);
REGISTER_PROP("C08", prop_C08, nullptr);
REGISTER_PROP("C09", prop_C09, nullptr);
