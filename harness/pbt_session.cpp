// C10 as a rapidcheck property: generated well-formed UCI sessions on the in-process engine under ASan/UBSan,
// preceded (once per process) by a deterministic suite that walks every fixed-size buffer's boundary.
#include "session.h"
#include <fstream>

namespace
{
// fixed words for the deterministic boundary sessions (a constant table, not a run-time RNG)
std::vector<uint32_t> fixed_words(size_t n, uint32_t salt)
{
    std::vector<uint32_t> v(n);
    uint64_t x = 0x9E3779B97F4A7C15ULL ^ salt;
    for (size_t i = 0; i < n; ++i)
    {
        x ^= x >> 12;
        x ^= x << 25;
        x ^= x >> 27;
        v[i] = uint32_t((x * 0x2545F4914F6CDD1DULL) >> 32);
    }
    return v;
}

bool boundary_suite(Report& rep, const std::string& tmpdir)
{
    sess::Stats st;
    std::vector<uint32_t> w = fixed_words(40000, 7);
    Tape t(w);
    sess::Runner r(t, st);
    r.tmpdir = tmpdir;
    sess::ctl().cap = 8000;
    sess::ctl().nodes_per_ms = 500;
    br::init_engine();
    engine::verif::virtual_clock = true;
    engine::verif::callback = &sess::cb;
    // a well-formed GUI only asks for a move when one exists
    auto go = [&](const std::string& c) { return ref::legal_moves(r.cur).empty() ? true : r.go(c, false); };
    long maxp = opt_int("exclude_game_plies_ge", 0);
    // (1) long games: 730 plies + search, then past the 800-entry history
    for (int target : {730, 790, 796, 797, 798, 799, 801, 1000})
    {
        if (maxp > 0 && target >= maxp)
        {
            rep.cls("c10:excluded_long_game");
            continue;
        }
        gen::Root g = sess::long_game(t, &rep, target, target);
        r.send("ucinewgame");
        r.set_position(g);
        r.cur = g.cur;
        sess::ctl().cap = 40000;
        if (!go(target >= 790 && target < 800 ? "go depth 5" : "go depth 3")) return false;
        sess::ctl().cap = 8000;
        r.send("printboard");
        r.send("staticeval");
        if (!r.sync()) return false;
        rep.cls("c10:boundary_long_game_" + std::to_string(target) + "_plies_reached_" + std::to_string(g.moves.size()));
        rep.sample("c10:long_game", "position startpos moves <" + std::to_string(g.moves.size()) + " legal plies> ; go depth 3", 4);
    }
    // (2) depth limits above the internal maximum on instant-search positions
    for (const char* fen : {"4k3/8/8/8/8/8/8/4K3 w - - 0 1", "4k3/8/8/8/8/8/8/4KN2 w - - 0 1"})
        for (int d : {40, 41, 42, 60, 100, 1000})
        {
            r.send("ucinewgame");
            r.send(std::string("position fen ") + fen);
            ref::from_fen(fen, r.cur);
            if (!go("go depth " + std::to_string(d))) return false;
            rep.cls("c10:boundary_depth_gt_40");
        }
    // (3) 218 legal moves, nine queens, ten knights / bishops / rooks, searchmoves with every move
    for (const char* fen : {"R6R/3Q4/1Q4Q1/4Q3/2Q4Q/Q4Q2/pp1Q4/kBNN1KB1 w - - 0 1", "k7/8/1r1q1r1q/b1q1n1q1/1Q1N1Q1B/Q1R1Q1R1/8/7K w - - 0 1",
                            "NNNNNNNN/8/8/8/8/8/k6N/2K4N w - - 0 1", "BBBBBBBB/8/8/8/8/8/k5B1/2K4B w - - 0 1", "RRRRRRR1/8/8/8/8/k7/7R/2K3RR w - - 0 1",
                            "n1n5/PPPk4/8/8/8/8/4Kppp/5N1N b - - 0 1"})
    {
        ref::Pos p;
        ref::from_fen(fen, p);
        if (!ref::domain_violation(p).empty()) continue;
        r.send("ucinewgame");
        r.send(std::string("position fen ") + fen);
        r.cur = p;
        r.label_position();
        if (!go("go depth 2")) return false;
        std::string sm = "go depth 1 searchmoves";
        for (auto& m : ref::legal_moves(p)) sm += " " + m.uci();
        if (!go(sm)) return false;
        r.send("perft 2");
        r.send("staticeval");
        r.send("printboard");
        if (!r.sync()) return false;
        rep.cls("c10:boundary_heavy_position");
    }
    // (4) promotions on top of maximal material: nine queens + pawns about to promote is the legal maximum (10 of a kind)
    for (const char* fen : {"1QQQQQQQ/8/8/8/8/8/k6p/2K1Q3 b - - 0 1", "4k3/P7/8/8/8/8/8/K1NNNNNN w - - 0 1"})
    {
        ref::Pos p;
        ref::from_fen(fen, p);
        if (!ref::domain_violation(p).empty()) continue;
        r.send("ucinewgame");
        r.send(std::string("position fen ") + fen);
        r.cur = p;
        if (!go("go depth 3")) return false;
        r.send("perft 2");
        if (!r.sync()) return false;
        rep.cls("c10:boundary_promotion_at_max_material");
    }
    for (auto& kv : st.cls) rep.cls(kv.first, kv.second);
    return true;
}

bool prop_C10(Tape& t, Report& rep)
{
    std::string tmpdir = opt("tmpdir", "/tmp");
    static bool suite_done = false;
    if (!suite_done)
    {
        suite_done = true;
        rep.decoded = "deterministic boundary suite (long games 730/799/801/1000 plies, go depth 40..1000 on instant positions, 218-move / many-piece positions, searchmoves with every move)";
        if (!boundary_suite(rep, tmpdir)) return rep.fail("session:hang", "the engine stopped answering during the boundary suite");
    }
    sess::Stats st;
    bool ok = sess::run_session(t, st, &rep, tmpdir);
    rep.decoded = st.transcript;
    rep.eval();
    for (auto& kv : st.cls) rep.cls(kv.first, kv.second);
    if (st.boundary && !opt("dump_corpus").empty() && !rep.frozen)
    {
        // seed corpus for the libFuzzer half: the tape bytes of sessions that cross a buffer boundary
        static int dumped = 0;
        if (dumped < 6)
        {
            char name[64];
            snprintf(name, sizeof name, "/seed-%016llx.bin", (unsigned long long)fnv1a(st.transcript));
            FILE* f = fopen((opt("dump_corpus") + name).c_str(), "wb");
            if (f)
            {
                for (size_t i = 0; i < t.n; ++i)
                {
                    unsigned char b[4] = {(unsigned char)(t.p[i]), (unsigned char)(t.p[i] >> 8), (unsigned char)(t.p[i] >> 16), (unsigned char)(t.p[i] >> 24)};
                    fwrite(b, 1, 4, f);
                }
                fclose(f);
                ++dumped;
            }
        }
    }
    if (st.boundary)
    {
        rep.nontriv(fnv1a(st.transcript));
        rep.sample("c10:boundary_session", st.transcript.substr(0, 500), 3);
    }
    else
        rep.sample("c10:session", st.transcript.substr(0, 300), 2);
    if (!ok) return rep.fail("session:hang", "the engine stopped answering (no readyok / bestmove within the safety timeout)\n session: " + st.transcript);
    return true;
}

// C10script: the same session generator in record mode.  Every case appends one session to the script file named by the
// `scriptfile` option; lib/vlib.py then feeds the script to the REAL executable (engine/main.cpp) under valgrind memcheck,
// whose reports of uninitialised-value use are the oracle for the clause that ASan/UBSan cannot see.
bool prop_C10script(Tape& t, Report& rep)
{
    std::string tmpdir = opt("tmpdir", "/tmp");
    std::vector<std::string> script;
    // rapidcheck starts with (nearly) empty tapes; a script case should be a full session whatever the size, so the tape is
    // continued by the deterministic extension stream, made different per case by the case counter
    static uint64_t caseNo = 0;
    t.extend = true;
    t.ext_state = (fnv1a(std::to_string(g_seed) + ":" + std::to_string(++caseNo)) | 1);
    sess::recording() = &script;
    sess::Stats st;
    sess::run_session(t, st, &rep, tmpdir);
    sess::recording() = nullptr;
    rep.eval();
    for (auto& kv : st.cls) rep.cls("script:" + kv.first, kv.second);
    size_t gos = 0;
    for (auto& l : script) gos += l.rfind("go", 0) == 0;
    rep.cls("script:commands", script.size());
    rep.cls("script:go_commands", gos);
    if (gos) rep.nontriv(fnv1a(st.transcript));
    rep.sample("c10script:session", st.transcript.substr(0, 300), 3);
    std::string path = opt("scriptfile");
    if (!path.empty() && !rep.frozen)
    {
        std::ofstream o(path, std::ios::app);
        o << "@session\n";
        for (auto& l : script) o << l << "\n";
    }
    return true;
}
}  // namespace

REGISTER_PROP("C10", prop_C10, nullptr);
REGISTER_PROP("C10script", prop_C10script, nullptr);
