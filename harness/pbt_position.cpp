// C02 (do_move follows the rules), C03 (undo restores everything), C04 (key is a function of the position),
// C07 (check / mate / stalemate / draw predicates agree with the game history)
#include "bridge.h"
#include "../gen/matepool.h"
#include "ucisession.h"
#include "registry.h"
#include "score.h"
#include "ucirig.h"

#include <unordered_map>

using namespace engine;

namespace
{
// ------------------------------------------------------------------------------------------------
// C02
// ------------------------------------------------------------------------------------------------
std::string c02_kind(const ref::Pos& p, const ref::Move& m, Report& rep)
{
    std::string k;
    bool w = p.wtm;
    char l = ref::lower(p.b[m.from]);
    if (ref::is_castle(p, m))
    {
        k = std::string(w ? "castle_white_" : "castle_black_") + (ref::FL(m.to) == 6 ? "short" : "long");
        if (p.half > 0) k += "_clock>0";
    }
    else if (ref::is_ep(p, m))
        k = w ? "ep_by_white" : "ep_by_black";
    else if (m.promo)
        k = std::string("promo_") + m.promo + (ref::is_capture(p, m) ? "_capture" : "");
    else if (ref::is_double_push(p, m))
        k = "double_push";
    if (k.empty() || m.promo)
    {
        // rook captured on its home square while the right still exists
        if ((m.to == 0 && p.cQ) || (m.to == 7 && p.cK) || (m.to == 56 && p.cq) || (m.to == 63 && p.ck))
            k += (k.empty() ? "" : "+") + std::string("capture_home_rook_with_right");
        else if (l == 'k' && (w ? (p.cK || p.cQ) : (p.ck || p.cq)))
            k = "king_move_with_rights";
        else if (l == 'r' && ((m.from == 0 && p.cQ) || (m.from == 7 && p.cK) || (m.from == 56 && p.cq) || (m.from == 63 && p.ck)))
            k = "rook_move_with_right";
    }
    if (!k.empty()) rep.cls("c02:" + k);
    return k;
}

bool c02_pair(const Position& base, const ref::Pos& rp, const ref::Move& m, Report& rep, const std::string& ctx)
{
    Position pos = base;
    Move em = pos.parse_uci(m.uci());
    pos.do_move(em);
    std::string got = pos.fen();
    std::string want = ref::to_fen(ref::make(rp, m));
    rep.eval();
    std::string kind = c02_kind(rp, m, rep);
    if (!kind.empty())
    {
        rep.nontriv(fnv1a(ref::key4(rp) + m.uci()));
        rep.sample("c02:" + kind, ref::to_fen(rp) + " + " + m.uci() + " -> " + want, 1);
    }
    if (got != want)
    {
        // which field differs
        std::istringstream a(got), b(want);
        std::string fa[6], fb[6];
        for (int i = 0; i < 6; ++i)
        {
            a >> fa[i];
            b >> fb[i];
        }
        static const char* names[6] = {"placement", "side", "rights", "ep", "halfmove", "fullmove"};
        std::string fields;
        for (int i = 0; i < 6; ++i)
            if (fa[i] != fb[i]) fields += std::string(fields.empty() ? "" : ",") + names[i];
        std::string sig = "domove:" + fields + (ref::is_castle(rp, m) ? ":castle" : "");
        return rep.fail(sig, "after " + m.uci() + " in " + ref::to_fen(rp) + "\n engine FEN: " + got + "\n rules  FEN: " + want +
                                 "\n differing fields: " + fields + "\n " + ctx);
    }
    return true;
}

bool prop_C02(Tape& t, Report& rep)
{
    br::init_engine();
    if (t.chance(1, 25)) return us::run(t, rep, us::F_C02);
    if (t.weighted({3, 2}) == 0)
    {
        // (a) every legal move of a root (and of its children under a budget)
        gen::Root root = gen::gen_root(t, &rep, 80);
        rep.decoded = root.describe();
        const bool viaReplay = !root.moves.empty() && t.flag();
    Position pos = viaReplay ? br::replay(root) : br::from_fen(root.cur);
        std::vector<ref::Move> ms = ref::legal_moves(root.cur);
        int budget = int(opt_int("pairs", g_tier ? 3000 : 600));
        for (const auto& m : ms)
        {
            if (!c02_pair(pos, root.cur, m, rep, "root: " + root.describe())) return false;
            --budget;
        }
        for (const auto& m : ms)
        {
            if (budget <= 0) break;
            ref::Pos child = ref::make(root.cur, m);
            Position cpos = pos;
            cpos.do_move(cpos.parse_uci(m.uci()));
            for (const auto& m2 : ref::legal_moves(child))
            {
                if (!c02_pair(cpos, child, m2, rep, "root: " + root.describe() + " then " + m.uci())) return false;
                if (--budget <= 0) break;
            }
        }
        return true;
    }
    if (t.chance(1, 6) && ucifmt::fmt(&rep).printboard)
    {
        // (c) the real UCI text path: `position fen|startpos ... moves ...` (+ `moves ...`) then `printboard`
        gen::Root game = gen::gen_game(t, &rep, 150);
        rigns::Rig& R = rigns::rig();
        size_t split = game.moves.empty() ? 0 : t.choose(uint32_t(game.moves.size()) + 1);
        bool isStart = ref::to_fen(game.start) == ref::to_fen(ref::startpos());
        std::string cmd = isStart && t.flag() ? std::string("position startpos") : "position fen " + ref::to_fen(game.start);
        if (split > 0 || t.flag()) cmd += " moves";
        for (size_t i = 0; i < split; ++i) cmd += " " + game.moves[i].uci();
        std::string cmd2;
        if (split < game.moves.size())
        {
            cmd2 = "moves";
            for (size_t i = split; i < game.moves.size(); ++i) cmd2 += " " + game.moves[i].uci();
        }
        rep.decoded = cmd + (cmd2.empty() ? "" : " ; " + cmd2) + " ; printboard";
        size_t mark = R.out.size();
        R.send(cmd);
        if (!cmd2.empty()) R.send(cmd2);
        R.send("printboard");
        long li = R.out.wait_line(mark, [](const std::string& l) { return l.rfind("Fen: \"", 0) == 0; }, 60000);
        rep.eval();
        rep.cls("c02:uci_text_path");
        if (!cmd2.empty()) rep.cls("c02:uci_moves_command");
        if (li < 0) return rep.fail("domove:uci:no_answer", "printboard printed no Fen line\n " + rep.decoded);
        std::string line = R.out.snapshot(size_t(li))[0];
        std::string got = line.substr(6, line.size() - 7);
        std::string want = ref::to_fen(game.cur);
        if (got != want)
            return rep.fail("domove:uci", "UCI text path: printboard shows a different position than the rules prescribe\n engine FEN: " + got +
                                              "\n rules  FEN: " + want + "\n session: " + rep.decoded.substr(0, 2000));
        return true;
    }
    // (b) whole games replayed the way `position ... moves ...` does, FEN compared after every ply;
    //     now and then a very long legal game (up to 1,100 plies: longer than any internal history buffer)
    gen::Root game = t.chance(1, 40) ? gen::long_game(t, &rep, 760, 1100) : gen::gen_game(t, &rep, int(opt_int("plies", g_tier ? 600 : 250)));
    if (game.moves.size() >= 800) rep.cls("c02:game_of_800_or_more_plies");
    rep.decoded = game.describe();
    rep.cls("c02:games");
    Position pos(ref::to_fen(game.start));
    ref::Pos rp = game.start;
    std::string played;
    for (const auto& m : game.moves)
    {
        if (!c02_pair(pos, rp, m, rep, "game from " + ref::to_fen(game.start) + " after" + played)) return false;
        pos.do_move(pos.parse_uci(m.uci()));
        rp = ref::make(rp, m);
        played += " " + m.uci();
    }
    rep.cls("c02:game_plies", game.moves.size());
    return true;
}

// ------------------------------------------------------------------------------------------------
// C03
// ------------------------------------------------------------------------------------------------
struct Snapshot
{
    std::string fen;
    uint64_t hash, pawn_hash;
    Piece board[64];
    std::vector<std::vector<int>> lists;  // sorted squares per piece
    bool repeated, threefold, rule50, draw, enough;
    int64_t eval;
    std::vector<std::string> moves;
    uint32_t half, ply;
    Castling rights;
    Square ep;
    Color side;
};

PositionScorer& shared_scorer()
{
    static PositionScorer* s = new PositionScorer();
    return *s;
}

Snapshot snap(const Position& pos)
{
    Snapshot s;
    s.fen = pos.fen();
    s.hash = pos.hash();
    s.pawn_hash = pos.pawn_hash();
    for (int i = 0; i < 64; ++i) s.board[i] = pos.piece_at(Square(i));
    s.lists.resize(PIECE_NUM);
    for (Piece p = W_PAWN; p <= B_KING; ++p)
    {
        for (int i = 0; i < pos.number_of_pieces(p); ++i) s.lists[p].push_back(int(pos.piece_position(p, i)));
        std::sort(s.lists[p].begin(), s.lists[p].end());
    }
    s.repeated = pos.is_repeated();
    s.threefold = pos.threefold_repetition();
    s.rule50 = pos.rule50();
    s.draw = pos.is_draw();
    s.enough = pos.enough_material();
    s.eval = pos.enough_material() ? shared_scorer().score(pos) : 0;
    br::EMoves em = br::engine_moves(pos);
    s.moves = em.uci;
    std::sort(s.moves.begin(), s.moves.end());
    s.half = pos.half_moves();
    s.ply = pos.ply_count();
    s.rights = pos.castling_rights();
    s.ep = pos.enpassant_square();
    s.side = pos.color();
    return s;
}

std::string snap_diff(const Snapshot& a, const Snapshot& b)
{
    std::string d;
    auto add = [&](const std::string& s) { d += (d.empty() ? "" : ",") + s; };
    if (a.fen != b.fen) add("fen[" + a.fen + " vs " + b.fen + "]");
    if (a.hash != b.hash) add("hash");
    if (a.pawn_hash != b.pawn_hash) add("pawn_hash");
    for (int i = 0; i < 64; ++i)
        if (a.board[i] != b.board[i])
        {
            add("piece_at(" + ref::sqname(i) + ")");
            break;
        }
    if (a.lists != b.lists) add("piece_lists");
    if (a.repeated != b.repeated) add("is_repeated");
    if (a.threefold != b.threefold) add("threefold_repetition");
    if (a.rule50 != b.rule50) add("rule50");
    if (a.draw != b.draw) add("is_draw");
    if (a.enough != b.enough) add("enough_material");
    if (a.eval != b.eval) add("static_eval[" + std::to_string(a.eval) + " vs " + std::to_string(b.eval) + "]");
    if (a.moves != b.moves) add("generated_moves");
    if (a.half != b.half) add("half_moves");
    if (a.ply != b.ply) add("ply_count");
    if (a.rights != b.rights) add("castling_rights");
    if (a.ep != b.ep) add("enpassant_square");
    if (a.side != b.side) add("side");
    return d;
}

struct Frame
{
    Snapshot before;
    Move move;
    MoveInfo info;
    bool is_null;
    std::string text;
};

// The UCI-level statement of C03: `perft` and `go` work on / copy the engine's current position; `hash` and `printboard`
// must print the same before and after them.
std::atomic<uint64_t> g_c03_visits{0};
constexpr uint64_t C03_VISIT_CAP = 20000;
void c03_cap_cb(int point, engine::Search* s)
{
    if (point != engine::verif::NODE && point != engine::verif::QNODE) return;
    uint64_t v = g_c03_visits.fetch_add(1, std::memory_order_relaxed) + 1;
    if (v == 20000 || (v > 20000 && v % 20000 == 0)) s->stop();  // the search is only a workload here: bound it
}

bool c03_uci_bracket(Tape& t, Report& rep)
{
    if (!ucifmt::fmt(&rep).printboard || !ucifmt::fmt(&rep).hash) return true;  // output formats not recognised (ucifmt.h)
    rigns::Rig& R = rigns::rig();
    engine::verif::callback = &c03_cap_cb;
    gen::Root root = gen::gen_root(t, &rep, 60);
    if (ref::legal_moves(root.cur).empty()) return true;
    std::string cmd = "position fen " + ref::to_fen(root.start);
    if (!root.moves.empty())
    {
        cmd += " moves";
        for (auto& m : root.moves) cmd += " " + m.uci();
    }
    auto snapshot = [&](std::string& hash, std::string& fen) -> bool {
        size_t mark = R.out.size();
        R.send("hash");
        R.send("printboard");
        long li = R.out.wait_line(mark, [](const std::string& l) { return l == "White to move" || l == "Black to move"; }, 60000);
        if (li < 0) return false;
        for (auto& l : R.out.snapshot(mark))
        {
            if (l.rfind("Hex: ", 0) == 0) hash = l;
            if (l.rfind("Fen: ", 0) == 0) fen = l;
        }
        return true;
    };
    R.send("ucinewgame");
    R.send(cmd);
    std::string h0, f0, h1, f1;
    if (!snapshot(h0, f0)) return rep.fail("undo:uci:no_answer", "hash/printboard not answered\n " + cmd);
    std::string ops;
    int nops = 1 + int(t.choose(3));
    for (int i = 0; i < nops; ++i)
    {
        size_t mark = R.out.size();
        if (t.flag())
        {
            int d = 1 + int(t.choose(2));
            R.send("perft " + std::to_string(d));
            ops += " ; perft " + std::to_string(d);
            if (R.out.wait_line(mark, [](const std::string& l) { return l.rfind("Speed:", 0) == 0; }, 300000) < 0) return rep.fail("undo:uci:no_answer", "perft not answered\n " + cmd + ops);
        }
        else
        {
            int d = 1 + int(t.choose(3));
            g_c03_visits = 0;
            R.send("go depth " + std::to_string(d));
            ops += " ; go depth " + std::to_string(d);
            if (R.out.wait_line(mark, rigns::is_bestmove, 300000) < 0)
            {
                R.send("stop");
                R.out.wait_line(mark, rigns::is_bestmove, 300000);
            }
        }
        rep.eval();
        if (!snapshot(h1, f1)) return rep.fail("undo:uci:no_answer", "hash/printboard not answered\n " + cmd + ops);
        rep.decoded = cmd + ops + " ; hash ; printboard";
        if (h1 != h0 || f1 != f0)
            return rep.fail(std::string("undo:uci:") + (f1 != f0 ? "fen" : "hash"), "the engine's position changed across" + ops + "\n before: " + h0 + " " + f0 + "\n after : " + h1 + " " + f1 + "\n session: " + cmd);
    }
    rep.cls("c03:uci_bracket");
    return true;
}

// perft is a nested make/unmake sequence on the UCI position: it must leave EVERY observable of the position as it was,
// including the ones `hash` and `printboard` do not show (the game history behind the repetition answers).  Metamorphic
// relation over two sessions that differ only in a `perft k` between `position` and `go`: the search output is the same.
// The game ends with a shuffle (a b a' b') and the search is restricted to `a`, the move that repeats an earlier position,
// so the result depends on the history.
bool c03_uci_transparency(Tape& t, Report& rep)
{
    if (!ucifmt::fmt(&rep).perft) return true;  // needs to recognise the end of perft's output (ucifmt.h)
    rigns::Rig& R = rigns::rig();
    engine::verif::callback = &c03_cap_cb;
    gen::Root root = gen::gen_root(t, &rep, 40);
    ref::Pos P = root.cur;
    std::vector<ref::Move> extra;
    auto quiet_piece_moves = [&](const ref::Pos& p) {
        std::vector<ref::Move> v;
        for (auto& m : ref::legal_moves(p))
            if (ref::lower(p.b[m.from]) != 'p' && !ref::is_capture(p, m) && !ref::is_castle(p, m)) v.push_back(m);
        return v;
    };
    for (int attempt = 0; attempt < 6 && extra.empty(); ++attempt)
    {
        std::vector<ref::Move> qa = quiet_piece_moves(P);
        if (qa.empty()) break;
        ref::Move a = qa[t.choose(uint32_t(qa.size()))];
        ref::Pos Pa = ref::make(P, a);
        std::vector<ref::Move> qb = quiet_piece_moves(Pa);
        if (qb.empty()) continue;
        ref::Move b = qb[t.choose(uint32_t(qb.size()))];
        ref::Pos Pab = ref::make(Pa, b);
        ref::Move ar{a.to, a.from, 0}, brv{b.to, b.from, 0};
        std::vector<ref::Move> l1 = ref::legal_moves(Pab);
        if (std::find(l1.begin(), l1.end(), ar) == l1.end()) continue;
        ref::Pos Paba = ref::make(Pab, ar);
        std::vector<ref::Move> l2 = ref::legal_moves(Paba);
        if (std::find(l2.begin(), l2.end(), brv) == l2.end()) continue;
        ref::Pos back = ref::make(Paba, brv);
        if (ref::key4(back) != ref::key4(P) || back.half > 140) continue;  // rights or ep changed: not a repetition
        extra = {a, b, ar, brv};
        P = back;
    }
    std::vector<ref::Move> legal = ref::legal_moves(P);
    if (legal.empty()) return true;
    std::string cmd = "position fen " + ref::to_fen(root.start);
    if (!root.moves.empty() || !extra.empty()) cmd += " moves";
    for (auto& m : root.moves) cmd += " " + m.uci();
    for (auto& m : extra) cmd += " " + m.uci();
    int d = 1 + int(t.choose(3)), k = 1 + int(t.choose(2));
    std::string go = "go depth " + std::to_string(d) + " searchmoves " + (extra.empty() ? legal[t.choose(uint32_t(legal.size()))].uci() : extra[0].uci());
    bool capped = false;
    auto session = [&](bool withPerft, std::string& result) -> bool {
        R.send("ucinewgame");
        R.send(cmd);
        size_t mark = R.out.size();
        if (withPerft)
        {
            R.send("perft " + std::to_string(k));
            if (R.out.wait_line(mark, [](const std::string& l) { return l.rfind("Speed:", 0) == 0; }, 300000) < 0) return false;
            mark = R.out.size();
        }
        g_c03_visits = 0;
        R.send(go);
        if (R.out.wait_line(mark, rigns::is_bestmove, 300000) < 0)
        {
            R.send("stop");
            R.out.wait_line(mark, rigns::is_bestmove, 300000);
            return false;
        }
        std::string lastInfo, best;
        for (auto& l : R.out.snapshot(mark))
        {
            if (l.rfind("info depth ", 0) == 0)
            {
                auto sp = l.find(" score "), np = l.find(" nodes "), pv = l.find(" pv ");
                lastInfo = l.substr(0, sp == std::string::npos ? l.size() : np) + (pv == std::string::npos ? "" : l.substr(pv));
            }
            if (rigns::is_bestmove(l)) best = l;
        }
        result = lastInfo + " | " + best;
        capped |= g_c03_visits.load() >= C03_VISIT_CAP;
        return true;
    };
    std::string r1, r2;
    bool ok1 = session(false, r1), ok2 = session(true, r2);
    rep.eval();
    rep.cls("c03:uci_perft_transparency");
    if (!extra.empty()) rep.cls("c03:uci_perft_transparency_with_repetition_history");
    rep.decoded = cmd + " ; [perft " + std::to_string(k) + " ;] " + go;
    if (!ok1 || !ok2)
    {
        rep.cls("c03:uci_transparency_inconclusive");
        return true;
    }
    if (capped)
    {
        rep.cls("c03:uci_transparency_inconclusive");
        return true;
    }
    if (!extra.empty()) rep.nontriv(fnv1a(rep.decoded));
    if (r1 != r2)
        return rep.fail("undo:uci:perft_changes_later_search", "the same search gives a different result when a `perft " + std::to_string(k) +
                                                                   "` is run between `position` and `go`: perft did not leave the position (its game history) as it was\n without perft: " + r1 +
                                                                   "\n with perft   : " + r2 + "\n session: " + rep.decoded);
    return true;
}

// "Arbitrarily nested make/unmake sequences": a long game behind the root (its history matters: the root is a repeated
// position) and a nest of several hundred plies made and taken back on the same object.  Whatever the position keeps about the
// game (the history buffer behind the repetition answers) must survive a nest that is deeper than any search.
bool c03_deep_nest(Tape& t, Report& rep)
{
    // (all sizes are drawn before the long game eats the tape; the rest of the case runs on the tape's extension stream)
    int rootPlies = t.chance(2, 3) ? 150 + int(t.choose(271)) : 420 + int(t.choose(371));  // 150..420 mostly, else up to 790
    const int depth = t.chance(2, 3) ? 380 + int(t.choose(221)) : 60 + int(t.choose(320));  // mostly 380..600 plies deep
    t.extend = true;
    gen::Root game = gen::long_game(t, &rep, rootPlies, rootPlies);
    // end the game line with a shuffle so that the root has occurred before
    {
        ref::Pos P = game.cur;
        for (int attempt = 0; attempt < 30; ++attempt)
        {
            std::vector<ref::Move> lm = ref::legal_moves(P);
            if (lm.empty()) break;
            ref::Move a = lm[t.choose(uint32_t(lm.size()))];
            if (ref::lower(P.b[a.from]) == 'p' || ref::is_capture(P, a) || ref::is_castle(P, a)) continue;
            ref::Pos Pa = ref::make(P, a);
            std::vector<ref::Move> lb = ref::legal_moves(Pa);
            if (lb.empty()) continue;
            ref::Move b = lb[t.choose(uint32_t(lb.size()))];
            if (ref::lower(Pa.b[b.from]) == 'p' || ref::is_capture(Pa, b) || ref::is_castle(Pa, b)) continue;
            ref::Pos Pab = ref::make(Pa, b);
            ref::Move ar{a.to, a.from, 0}, brv{b.to, b.from, 0};
            std::vector<ref::Move> l1 = ref::legal_moves(Pab);
            if (std::find(l1.begin(), l1.end(), ar) == l1.end()) continue;
            ref::Pos Paba = ref::make(Pab, ar);
            std::vector<ref::Move> l2 = ref::legal_moves(Paba);
            if (std::find(l2.begin(), l2.end(), brv) == l2.end()) continue;
            ref::Pos back = ref::make(Paba, brv);
            if (ref::key4(back) != ref::key4(P) || back.half > 140) continue;
            for (auto& m : {a, b, ar, brv}) game.moves.push_back(m);
            game.cur = back;
            break;
        }
    }
    Position pos = br::replay(game);
    const Snapshot rootSnap = snap(pos);
    rep.decoded = "game of " + std::to_string(game.moves.size()) + " plies from the start position (root " + ref::to_fen(game.cur) + ", occurred before: " +
                  (rootSnap.repeated ? "yes" : "no") + "), then a nest of " + std::to_string(depth) + " plies made and taken back";
    std::vector<std::pair<Move, MoveInfo>> stack;
    std::vector<std::pair<int, Snapshot>> marks;
    for (int d = 0; d < depth; ++d)
    {
        br::EMoves em = br::engine_moves(pos);
        if (em.raw.empty())
        {
            rep.cls("c03:deep_nest_ended_by_mate_or_stalemate");
            break;
        }
        // A nest is a search-tree / perft line, not a game: it is not ended by the 75-move rule, but it stays below the 8-bit
        // half-move clock.  To get deep, it keeps the material (quiet piece moves while the clock is low) and spends pawn moves
        // and captures only to reset the clock.
        auto irreversible = [&](Move mv) {
            return castling(mv) == NO_CASTLING && (pos.piece_at(to(mv)) != NO_PIECE || make_piece_kind(pos.piece_at(from(mv))) == PAWN);
        };
        size_t idx = t.choose(uint32_t(em.raw.size()));
        bool wantReset = pos.half_moves() >= 100;
        for (size_t k = 0, n = em.raw.size(); k < n; ++k)
        {
            size_t j = (idx + k) % n;
            if (irreversible(em.raw[j]) == wantReset)
            {
                idx = j;
                break;
            }
        }
        if (pos.half_moves() >= 200 && !irreversible(em.raw[idx]))
        {
            rep.cls("c03:deep_nest_ended_by_clock");
            break;
        }
        if (d % 97 == 50) marks.push_back({d, snap(pos)});
        Move m = em.raw[idx];
        stack.push_back({m, pos.do_move(m)});
    }
    int reached = int(stack.size());
    while (!stack.empty())
    {
        pos.undo_move(stack.back().first, stack.back().second);
        stack.pop_back();
        rep.eval();
        if (!marks.empty() && marks.back().first == int(stack.size()))
        {
            std::string dd = snap_diff(marks.back().second, snap(pos));
            if (!dd.empty())
                return rep.fail("undo:deep_nest:" + dd.substr(0, dd.find_first_of("[,")), "after a nest taken back to level " + std::to_string(stack.size()) + " the position differs: " + dd + "\n " + rep.decoded);
            marks.pop_back();
        }
    }
    rep.cls("c03:deep_nest");
    if (reached >= 400) rep.cls("c03:deep_nest_ge_400_plies");
    if (rootSnap.repeated) rep.cls("c03:deep_nest_root_is_a_repeated_position");
    rep.nontriv(fnv1a(rep.decoded));
    std::string d = snap_diff(rootSnap, snap(pos));
    if (!d.empty())
        return rep.fail("undo:deep_nest:" + d.substr(0, d.find_first_of("[,")), "a nest of " + std::to_string(reached) + " plies was made and taken back; the root differs afterwards: " + d + "\n " + rep.decoded);
    // the object must still be usable: one more move and back
    br::EMoves em = br::engine_moves(pos);
    if (!em.raw.empty())
    {
        MoveInfo mi = pos.do_move(em.raw[0]);
        pos.undo_move(em.raw[0], mi);
        std::string d2 = snap_diff(rootSnap, snap(pos));
        if (!d2.empty()) return rep.fail("undo:deep_nest:" + d2.substr(0, d2.find_first_of("[,")), "after the nest one more move made and taken back changes the root: " + d2 + "\n " + rep.decoded);
    }
    return true;
}

bool prop_C03(Tape& t, Report& rep)
{
    br::init_engine();
    if (t.chance(1, 150)) return c03_deep_nest(t, rep);
    if (t.chance(1, 40)) return c03_uci_bracket(t, rep);
    if (t.chance(1, 40)) return c03_uci_transparency(t, rep);
    gen::Root root = gen::gen_root(t, &rep, 60);
    rep.decoded = root.describe();
    const bool viaReplay = !root.moves.empty() && t.flag();
    Position pos = viaReplay ? br::replay(root) : br::from_fen(root.cur);
    const Snapshot rootSnap = snap(pos);
    std::vector<Frame> stack;
    int nops = int(t.choose(uint32_t(opt_int("ops", g_tier ? 600 : 300)) + 1));
    int maxDepth = int(opt_int("maxdepth", 40));
    std::string trace;
    bool sawSpecialUndo = false, sawNullWithEp = false;
    int deepest = 0;
    uint64_t fp = fnv1a(ref::key4(root.cur));
    auto undo_top = [&]() -> bool {
        Frame f = stack.back();
        stack.pop_back();
        if (f.is_null)
            pos.undo_null_move(f.info);
        else
            pos.undo_move(f.move, f.info);
        rep.eval();
        Snapshot after = snap(pos);
        std::string d = snap_diff(f.before, after);
        if (!d.empty())
        {
            std::string what = d.substr(0, d.find_first_of("[,"));
            return rep.fail("undo:" + std::string(f.is_null ? "null:" : "") + what,
                            "undo of " + f.text + " did not restore: " + d + "\n position before the move: " + f.before.fen +
                                "\n operation trace:" + trace + "\n root: " + root.describe());
        }
        return true;
    };
    for (int i = 0; i < nops; ++i)
    {
        int op = t.weighted({5, 3, 1});  // do, undo, null
        if (stack.empty() && op == 1) op = 0;
        if (int(stack.size()) >= maxDepth) op = 1;
        if (op == 0 || op == 2)
        {
            bool inCheck = pos.is_in_check(pos.color());
            bool lastNull = !stack.empty() && stack.back().is_null;
            if (op == 2 && (inCheck || lastNull)) op = 0;
            if (op == 2)
            {
                Frame f{snap(pos), NO_MOVE, 0, true, "null move"};
                if (pos.enpassant_square() != NO_SQUARE)
                {
                    sawNullWithEp = true;
                    rep.cls("c03:null_with_ep_pending");
                }
                f.info = pos.do_null_move();
                stack.push_back(f);
                trace += " null";
                rep.cls("c03:null");
                continue;
            }
            br::EMoves em = br::engine_moves(pos);
            if (em.raw.empty())
            {
                if (stack.empty()) break;
                if (!undo_top()) return false;
                trace += " undo";
                continue;
            }
            // bias to special moves
            int idx = int(t.choose(uint32_t(em.raw.size())));
            if (t.chance(1, 3))
            {
                std::vector<int> sp;
                for (size_t k = 0; k < em.raw.size(); ++k)
                {
                    Move m = em.raw[k];
                    if (castling(m) != NO_CASTLING || promotion(m) != NO_PIECE_KIND ||
                        (make_piece_kind(pos.piece_at(from(m))) == PAWN && to(m) == pos.enpassant_square()) ||
                        pos.piece_at(to(m)) != NO_PIECE)
                        sp.push_back(int(k));
                }
                if (!sp.empty()) idx = sp[t.choose(uint32_t(sp.size()))];
            }
            Move m = em.raw[idx];
            Frame f{snap(pos), m, 0, false, em.uci[idx]};
            bool special = castling(m) != NO_CASTLING || promotion(m) != NO_PIECE_KIND ||
                           (make_piece_kind(pos.piece_at(from(m))) == PAWN && to(m) == pos.enpassant_square());
            if (castling(m) != NO_CASTLING) rep.cls("c03:castle");
            if (promotion(m) != NO_PIECE_KIND) rep.cls(pos.piece_at(to(m)) != NO_PIECE ? "c03:promo_capture" : "c03:promo");
            if (make_piece_kind(pos.piece_at(from(m))) == PAWN && to(m) == pos.enpassant_square()) rep.cls("c03:ep");
            sawSpecialUndo |= special;
            f.info = pos.do_move(m);
            stack.push_back(f);
            deepest = std::max(deepest, int(stack.size()));
            trace += " " + em.uci[idx];
            fp = mix64(fp ^ fnv1a(em.uci[idx]));
        }
        else
        {
            if (!undo_top()) return false;
            trace += " undo";
        }
    }
    // the engine's own nested make/unmake (perft) must leave the position untouched
    if (t.chance(1, 3))
    {
        Snapshot b = snap(pos);
        engine::perft(pos, 1 + int(t.choose(2)));
        rep.eval();
        std::string d = snap_diff(b, snap(pos));
        if (!d.empty()) return rep.fail("undo:perft", "perft altered the position: " + d + "\n at " + b.fen + "\n trace:" + trace);
        rep.cls("c03:perft_bracket");
    }
    // compare with a position rebuilt from scratch by replaying the current path (no null moves on it)
    bool hasNull = false;
    for (auto& f : stack) hasNull |= f.is_null;
    if (!hasNull && !stack.empty())
    {
        Position fresh = viaReplay ? br::replay(root) : br::from_fen(root.cur);
        for (auto& f : stack) fresh.do_move(f.move);
        Snapshot a = snap(pos), b = snap(fresh);
        rep.eval();
        std::string d = snap_diff(a, b);
        if (!d.empty())
            return rep.fail("undo:rebuild", "position after nested make/unmake differs from the same line replayed from scratch: " + d +
                                                "\n trace:" + trace + "\n root: " + root.describe());
    }
    while (!stack.empty())
    {
        if (!undo_top()) return false;
    }
    std::string d = snap_diff(rootSnap, snap(pos));
    if (!d.empty()) return rep.fail("undo:root", "root not restored after unwinding: " + d + "\n trace:" + trace + "\n root: " + root.describe());
    if (deepest >= 10) rep.cls("c03:depth>=10");
    if ((sawSpecialUndo || sawNullWithEp) && deepest >= 3) rep.nontriv(fp);
    if (sawSpecialUndo) rep.sample("c03:special", root.describe() + " ops:" + trace.substr(0, 300), 2);
    return true;
}

// ------------------------------------------------------------------------------------------------
// C04
// ------------------------------------------------------------------------------------------------
struct KeyMaps
{
    std::unordered_map<std::string, std::pair<uint64_t, uint64_t>> byKey4;  // key4 -> (hash, path fingerprint)
    std::unordered_map<uint64_t, std::string> byHash;                        // hash -> key4
    std::unordered_map<std::string, uint64_t> byPawns;                       // pawn placement -> pawn key
    std::unordered_map<uint64_t, std::string> byPawnKey;
};
KeyMaps& maps()
{
    static KeyMaps m;
    return m;
}

std::string pawn_placement(const ref::Pos& p)
{
    std::string s(64, '.');
    for (int i = 0; i < 64; ++i)
        if (ref::lower(p.b[i]) == 'p') s[i] = p.b[i];
    return s;
}

bool c04_observe(const Position& pos, const ref::Pos& rp, uint64_t pathfp, Report& rep, const std::string& ctx)
{
    rep.eval();
    // (1) incremental == from scratch
    Position scratch(pos.fen());
    if (scratch.hash() != pos.hash() || scratch.pawn_hash() != pos.pawn_hash())
        return rep.fail(std::string("key:incremental:") + (scratch.hash() != pos.hash() ? "hash" : "pawn_hash"),
                        "incrementally maintained key differs from the key of the same position loaded from its FEN\n fen=" +
                            pos.fen() + "\n " + ctx);
    // engine FEN must describe the oracle position (otherwise C02's concern; skip bucket logic)
    std::string k4 = ref::key4(rp);
    KeyMaps& M = maps();
    if (M.byKey4.size() < 1500000)
    {
        auto it = M.byKey4.find(k4);
        if (it == M.byKey4.end())
            M.byKey4.emplace(k4, std::make_pair(pos.hash(), pathfp));
        else
        {
            if (it->second.first != pos.hash())
                return rep.fail("key:same_position_different_key",
                                "two occurrences of the same position (placement, side, rights, ep) have different keys\n position=" +
                                    k4 + "\n " + ctx);
            if (it->second.second != pathfp)
            {
                rep.cls("c04:transposition_confirmed");
                rep.nontriv(fnv1a(k4));
            }
        }
        auto ih = M.byHash.find(pos.hash());
        if (ih == M.byHash.end())
            M.byHash.emplace(pos.hash(), k4);
        else if (ih->second != k4)
            return rep.fail("key:different_positions_same_key", "two different positions share a key\n a=" + ih->second + "\n b=" + k4 +
                                                                    "\n " + ctx);
    }
    // (3) pawn key <=> pawn placement
    std::string pp = pawn_placement(rp);
    if (M.byPawns.size() < 800000)
    {
        auto it = M.byPawns.find(pp);
        if (it == M.byPawns.end())
            M.byPawns.emplace(pp, pos.pawn_hash());
        else if (it->second != pos.pawn_hash())
            return rep.fail("key:pawnkey_depends_on_more_than_pawns", "same pawn placement, different pawn keys\n fen=" + pos.fen() + "\n " + ctx);
        else
            rep.cls("c04:pawnkey_reuse");
        auto ih = M.byPawnKey.find(pos.pawn_hash());
        if (ih == M.byPawnKey.end())
            M.byPawnKey.emplace(pos.pawn_hash(), pp);
        else if (ih->second != pp)
            return rep.fail("key:pawnkey_collision", "different pawn placements share a pawn key\n fen=" + pos.fen() + "\n " + ctx);
    }
    return true;
}

bool c04_metamorphic(const ref::Pos& rp, Tape& t, Report& rep)
{
    Position base(ref::to_fen(rp));
    auto differs = [&](const ref::Pos& q, const char* what) -> bool {
        if (ref::key4(q) == ref::key4(rp)) return true;
        Position v(ref::to_fen(q));
        rep.eval();
        rep.cls(std::string("c04:meta_") + what);
        if (v.hash() == base.hash())
            return rep.fail(std::string("key:insensitive:") + what, std::string("changing ") + what + " does not change the key\n a=" +
                                                                        ref::to_fen(rp) + "\n b=" + ref::to_fen(q));
        return true;
    };
    ref::Pos q = rp;
    q.wtm = !q.wtm;
    q.ep = -1;
    ref::Pos r0 = rp;
    r0.ep = -1;
    {
        // side flip compared against the ep-less base to isolate the side component
        Position a(ref::to_fen(r0)), b(ref::to_fen(q));
        rep.eval();
        if (a.hash() == b.hash()) return rep.fail("key:insensitive:side", "side to move does not change the key: " + ref::to_fen(r0));
    }
    for (int i = 0; i < 4; ++i)
    {
        ref::Pos c = rp;
        bool* f[4] = {&c.cK, &c.cQ, &c.ck, &c.cq};
        *f[i] = !*f[i];
        if (!differs(c, "one_castling_right")) return false;
    }
    {
        ref::Pos e = rp;
        int f = int(t.choose(8));
        e.ep = ref::SQ(f, e.wtm ? 5 : 2);
        if (!differs(e, "ep_file")) return false;
    }
    {
        ref::Pos e = rp;
        int s = int(t.choose(64));
        char pieces[] = "PNBRQpnbrq.";
        char c = pieces[t.choose(11)];
        if ((c == 'P' || c == 'p') && (ref::RK(s) == 0 || ref::RK(s) == 7)) c = '.';
        if (ref::lower(e.b[s]) != 'k' && e.b[s] != c)
        {
            e.b[s] = c;
            if (ref::count(e, c) <= 10 || c == '.')
                if (!differs(e, "one_piece")) return false;
        }
    }
    return true;
}

bool prop_C04(Tape& t, Report& rep)
{
    br::init_engine(false);
    if (t.chance(1, 40)) return us::run(t, rep, us::F_C04);
    int mode = t.weighted({4, 3, 2});
    if (mode == 0)
    {
        // walk with null moves; observe every position
        gen::Root game = gen::gen_game(t, &rep, int(opt_int("plies", g_tier ? 200 : 120)));
        rep.decoded = game.describe();
        Position pos(ref::to_fen(game.start));
        ref::Pos rp = game.start;
        uint64_t pathfp = fnv1a(ref::key4(rp));
        if (!c04_observe(pos, rp, pathfp, rep, game.describe())) return false;
        for (const auto& m : game.moves)
        {
            bool wasCapOfRook = ref::lower(rp.b[m.to]) == 'r';
            bool wasEp = ref::is_ep(rp, m);
            pos.do_move(pos.parse_uci(m.uci()));
            rp = ref::make(rp, m);
            pathfp = mix64(pathfp ^ fnv1a(m.uci()));
            if (!c04_observe(pos, rp, pathfp, rep, "game " + game.describe() + " at " + ref::to_fen(rp))) return false;
            if (wasCapOfRook) rep.cls("c04:rook_captured");
            if (wasEp) rep.cls("c04:ep_capture");
            // make/unmake paths: every child reached by do_move and the parent after undo_move must carry the key of their position
            if (t.chance(1, 4))
            {
                std::vector<ref::Move> lm = ref::legal_moves(rp);
                // castles, promotions and captures first: they touch the most key components
                std::stable_sort(lm.begin(), lm.end(), [&](const ref::Move& a, const ref::Move& b) {
                    auto w = [&](const ref::Move& x) { return int(ref::is_castle(rp, x)) * 4 + int(x.promo != 0) * 2 + int(ref::is_capture(rp, x)); };
                    return w(a) > w(b);
                });
                size_t lim = std::min<size_t>(lm.size(), 6);
                for (size_t k = 0; k < lim; ++k)
                {
                    const ref::Move& cm = k < 3 ? lm[k] : lm[t.choose(uint32_t(lm.size()))];
                    Move em = pos.parse_uci(cm.uci());
                    MoveInfo mi = pos.do_move(em);
                    ref::Pos child = ref::make(rp, cm);
                    if (!c04_observe(pos, child, mix64(pathfp ^ fnv1a(cm.uci())), rep, "child " + cm.uci() + " of " + ref::to_fen(rp))) return false;
                    pos.undo_move(em, mi);
                    if (!c04_observe(pos, rp, pathfp, rep, "after do/undo of " + cm.uci() + " at " + ref::to_fen(rp))) return false;
                    if (ref::is_castle(rp, cm)) rep.cls("c04:do_undo_castle");
                    rep.cls("c04:do_undo_probe");
                }
            }
            // null move probe (as the search does it: not in check, never twice in a row)
            if (!ref::in_check(rp, rp.wtm) && t.chance(1, 4))
            {
                bool epPending = rp.ep >= 0;
                MoveInfo mi = pos.do_null_move();
                ref::Pos np = rp;
                np.wtm = !np.wtm;
                np.ep = -1;
                if (!c04_observe(pos, np, mix64(pathfp ^ 0x9e37), rep, "after null move at " + ref::to_fen(rp))) return false;
                pos.undo_null_move(mi);
                if (!c04_observe(pos, rp, pathfp, rep, "after undoing a null move at " + ref::to_fen(rp))) return false;
                rep.cls(epPending ? "c04:null_after_double_push" : "c04:null");
                if (epPending) rep.nontriv(fnv1a(ref::key4(rp) + "null"));
            }
        }
        return true;
    }
    if (mode == 1)
    {
        // explicit transpositions: the same four half-moves in different orders
        gen::Root root = gen::gen_root(t, &rep, 40);
        rep.decoded = root.describe();
        std::vector<ref::Move> ms = ref::legal_moves(root.cur);
        if (ms.size() < 2) return true;
        ref::Move a = ms[t.choose(uint32_t(ms.size()))], b = ms[t.choose(uint32_t(ms.size()))];
        ref::Pos afterA = ref::make(root.cur, a);
        std::vector<ref::Move> rs = ref::legal_moves(afterA);
        if (rs.size() < 1) return true;
        ref::Move x = rs[t.choose(uint32_t(rs.size()))], y = rs[t.choose(uint32_t(rs.size()))];
        std::vector<std::vector<ref::Move>> orders = {{a, x, b, y}, {b, x, a, y}, {a, y, b, x}, {b, y, a, x}};
        for (auto& ord : orders)
        {
            ref::Pos rp = root.cur;
            Position pos = br::from_fen(root.cur);
            uint64_t pathfp = fnv1a(ref::key4(rp));
            bool ok = true;
            for (auto& m : ord)
            {
                std::vector<ref::Move> lm = ref::legal_moves(rp);
                if (std::find(lm.begin(), lm.end(), m) == lm.end())
                {
                    ok = false;
                    break;
                }
                pos.do_move(pos.parse_uci(m.uci()));
                rp = ref::make(rp, m);
                pathfp = mix64(pathfp ^ fnv1a(m.uci()));
                if (!c04_observe(pos, rp, pathfp, rep, "permutation from " + root.describe())) return false;
            }
            if (ok) rep.cls("c04:permutation_line");
        }
        return true;
    }
    gen::Root root = gen::gen_root(t, &rep, 40);
    rep.decoded = root.describe();
    return c04_metamorphic(root.cur, t, rep);
}

// ------------------------------------------------------------------------------------------------
// C07
// ------------------------------------------------------------------------------------------------
// Right after every move that changes the castling rights (a king or rook leaves home, a castle, a rook taken on its corner)
// a four-ply there-and-back shuffle X Y X' Y' is spliced into the game, preferring kings and rooks that carry no right, so that
// the very same position (placement, side, rights, ep) stands on the board again at once: "has this occurred before" must say
// yes whatever incremental bookkeeping the rights change and the shuffle went through.  Consumes no tape word (the choice is
// the first pair that works), so every tape decodes to the game it decoded to before, plus the splices; the rest of the game
// stays legal because the position is the same, and is cut where the clock or the occurrence count would leave the domain
// (clock <= 150, no position more than five times).
static int c07_splice_refresh_shuffles(const ref::Pos& start, std::vector<ref::Move>& moves)
{
    auto rights = [](const ref::Pos& p) { return int(p.cK) | int(p.cQ) << 1 | int(p.ck) << 2 | int(p.cq) << 3; };
    auto quiet_keeping_rights = [&](const ref::Pos& p, bool kingsAndRooks) {
        std::vector<ref::Move> out;
        for (auto& m : ref::legal_moves(p))
        {
            char k = ref::lower(p.b[m.from]);
            if (k == 'p' || m.promo || ref::is_capture(p, m) || ref::is_castle(p, m)) continue;
            if ((k == 'k' || k == 'r') != kingsAndRooks) continue;
            if (rights(ref::make(p, m)) != rights(p)) continue;
            out.push_back(m);
            if (out.size() >= 4) break;
        }
        return out;
    };
    auto back_of = [](const ref::Pos& p, const ref::Move& m, ref::Move& out) {
        for (auto& b : ref::legal_moves(p))
            if (b.from == m.to && b.to == m.from && !b.promo && !ref::is_capture(p, b) && !ref::is_castle(p, b))
            {
                out = b;
                return true;
            }
        return false;
    };
    ref::Game g(start);
    std::vector<ref::Move> out;
    int splices = 0;
    auto admissible = [&](const ref::Move& m) {
        ref::Pos n = ref::make(g.cur, m);
        if (n.half > 150) return false;
        std::string k = ref::key4(n);
        int occ = 1;
        for (auto& kk : g.keys) occ += kk == k;
        return occ <= 5;
    };
    for (const auto& m : moves)
    {
        bool legal = false;
        for (auto& l : ref::legal_moves(g.cur)) legal = legal || (l.from == m.from && l.to == m.to && l.promo == m.promo);
        if (!legal || !admissible(m)) break;
        int before = rights(g.cur);
        g.play(m);
        out.push_back(m);
        if (rights(g.cur) == before || splices >= 6 || g.cur.half > 140) continue;
        bool done = false;
        for (int xk = 1; xk >= 0 && !done; --xk)
            for (auto& X : quiet_keeping_rights(g.cur, xk != 0))
            {
                if (done) break;
                ref::Pos p1 = ref::make(g.cur, X);
                for (int yk = 1; yk >= 0 && !done; --yk)
                    for (auto& Y : quiet_keeping_rights(p1, yk != 0))
                    {
                        ref::Pos p2 = ref::make(p1, Y);
                        ref::Move Xb, Yb;
                        if (!back_of(p2, X, Xb)) continue;
                        ref::Pos p3 = ref::make(p2, Xb);
                        if (!back_of(p3, Y, Yb)) continue;
                        ref::Pos p4 = ref::make(p3, Yb);
                        if (ref::key4(p4) != ref::key4(g.cur)) continue;
                        ref::Game probe = g;
                        bool ok = true;
                        for (const ref::Move* s : {&X, &Y, &Xb, &Yb})
                        {
                            ref::Pos n = ref::make(probe.cur, *s);
                            std::string k = ref::key4(n);
                            int occ = 1;
                            for (auto& kk : probe.keys) occ += kk == k;
                            if (occ > 5 || n.half > 150) ok = false;
                            probe.play(*s);
                        }
                        if (!ok) continue;
                        for (const ref::Move* s : {&X, &Y, &Xb, &Yb}) out.push_back(*s);
                        g = probe;
                        ++splices;
                        done = true;
                        break;
                    }
            }
    }
    moves = out;
    return splices;
}

bool prop_C07(Tape& t, Report& rep)
{
    br::init_engine();
    int maxPlies = int(opt_int("plies", g_tier ? 700 : 300));
    gen::Root game;
    if (t.chance(1, 12))
    {
        // a special move (en passant, promotion, castling, discovered / double check) that mates: check and mate predicates
        // of the position reached by exactly that move on a live Position object
        const mp::Pool& P = mp::pool(uint64_t(opt_int("zseed", 1)), opt_int("matepool_tries", 150000), size_t(opt_int("matepool_cap", 16)));
        int k = int(t.choose(mp::NKIND));
        ref::Pos s = P.k[k].empty() ? ref::startpos() : P.k[k][t.choose(uint32_t(P.k[k].size()))].p;
        game.start = game.cur = s;
        game.kind = std::string("special_mate_pool:") + mp::KNAME[k];
        if (!P.k[k].empty())
        {
            // one or two quiet plies first when possible, then the mating move must still be there; otherwise play it at once
            for (auto& m : ref::legal_moves(s))
            {
                ref::Pos q = ref::make(s, m);
                if (ref::in_check(q, q.wtm) && ref::legal_moves(q).empty())
                {
                    game.moves.push_back(m);
                    game.cur = q;
                    break;
                }
            }
            rep.cls("c07:special_mate_pool_game");
        }
    }
    else if (t.chance(1, 160))
    {
        // a game longer than the engine's 800-entry history buffer on ONE object: repetition answers after the buffer has
        // been compacted must still see the recent half of the game
        game = gen::long_game(t, &rep, 810, 900);
        rep.cls("c07:game_longer_than_history_buffer");
    }
    else if (t.chance(1, 8))
    {
        // the just-pushed pawn gives check and capturing it en passant is the only reply: "is it mate?" hinges on that move
        ref::Pos s = gen::theme_ep_evasion(t, &rep);
        game = gen::gen_game(t, &rep, 6, &s);
        rep.cls("c07:ep_evasion_root");
    }
    else if (t.chance(1, 4))
    {
        // sparse endings that cross the insufficient-material boundary
        ref::Pos s = gen::gen_fen(t, &rep, 0);
        game = gen::gen_game(t, &rep, maxPlies, &s);
    }
    else
        game = gen::gen_game(t, &rep, maxPlies);
    if (game.kind != "long_game" && game.kind.rfind("special_mate_pool", 0) != 0)
    {
        int n = c07_splice_refresh_shuffles(game.start, game.moves);
        if (n)
        {
            rep.cls("c07:shuffle_spliced_after_rights_change");
            game.cur = game.start;
            for (auto& m : game.moves) game.cur = ref::make(game.cur, m);
        }
    }
    rep.decoded = game.describe();
    Position pos(ref::to_fen(game.start));
    ref::Game g(game.start);
    std::string played;
    bool prevInsuff = ref::insufficient_material(g.cur);
    auto check_here = [&]() -> bool {
        const ref::Pos& rp = g.cur;
        rep.eval();
        bool oCheck = ref::in_check(rp, rp.wtm);
        std::vector<ref::Move> lm = ref::legal_moves(rp);
        bool oMate = oCheck && lm.empty(), oStale = !oCheck && lm.empty();
        bool oRep = g.repeated(), oThree = g.threefold(), oFifty = g.fifty(), oInsuff = ref::insufficient_material(rp);
        bool oDraw = oFifty || oThree || oInsuff;
        struct Row
        {
            const char* name;
            bool got, want;
        } rows[] = {
            {"is_in_check", pos.is_in_check(pos.color()), oCheck},
            {"is_checkmate", pos.is_checkmate(), oMate},
            {"is_stalemate", pos.is_stalemate(), oStale},
            {"is_repeated", pos.is_repeated(), oRep},
            {"threefold_repetition", pos.threefold_repetition(), oThree},
            {"rule50", pos.rule50(), oFifty},
            {"enough_material", pos.enough_material(), !oInsuff},
            {"is_draw", pos.is_draw(), oDraw},
        };
        for (auto& r : rows)
            if (r.got != r.want)
                return rep.fail(std::string("predicate:") + r.name,
                                std::string(r.name) + " = " + (r.got ? "true" : "false") + ", rules say " + (r.want ? "true" : "false") +
                                    "\n at " + ref::to_fen(rp) + " (occurrences of this position so far: " + std::to_string(g.occurrences()) +
                                    ", clock " + std::to_string(rp.half) + ")\n game: fen=" + ref::to_fen(game.start) + " moves" + played);
        bool any = oCheck || oMate || oStale || oRep || oThree || oFifty || oInsuff;
        if (oCheck) rep.cls("c07:check");
        if (oMate) rep.cls("c07:checkmate");
        if (oStale) rep.cls("c07:stalemate");
        if (oRep) rep.cls("c07:repeated");
        if (oThree) rep.cls("c07:threefold");
        if (g.occurrences() >= 4) rep.cls("c07:fourfold_or_more");
        if (oFifty) rep.cls("c07:rule50");
        if (rp.half == 100) rep.cls("c07:clock_reaches_100");
        if (rp.half == 99) rep.cls("c07:clock_99");
        if (oInsuff) rep.cls("c07:insufficient");
        if (oInsuff && !prevInsuff) rep.cls("c07:insufficient_reached_by_capture");
        if (oThree)
        {
            // non-consecutive occurrences: the previous occurrence is more than 4 plies back
            int last = -1;
            for (int i = int(g.keys.size()) - 2; i >= 0; --i)
                if (g.keys[i] == g.keys.back())
                {
                    last = i;
                    break;
                }
            if (int(g.keys.size()) - 1 - last > 4) rep.cls("c07:threefold_nonconsecutive");
        }
        // a position equal in placement+side to an earlier one but with different rights/ep (repetition "broken")
        if (!oRep)
        {
            std::string pre = ref::placement(rp) + (rp.wtm ? " w " : " b ");
            for (int i = int(g.keys.size()) - 2; i >= 0 && i >= int(g.keys.size()) - 40; --i)
                if (g.keys[i].compare(0, pre.size(), pre) == 0)
                {
                    rep.cls("c07:same_placement_different_rights_or_ep");
                    any = true;
                    break;
                }
        }
        prevInsuff = oInsuff;
        if (any) rep.nontriv(mix64(fnv1a(ref::key4(rp)) ^ uint64_t(g.occurrences()) * 0x9e3779b97f4a7c15ULL ^ uint64_t(rp.half)));
        if (oThree) rep.sample("c07:threefold", "fen=" + ref::to_fen(game.start) + " moves" + played.substr(0, 400), 2);
        if (oMate) rep.sample("c07:mate", ref::to_fen(rp), 2);
        if (oStale) rep.sample("c07:stalemate", ref::to_fen(rp), 2);
        if (oFifty) rep.sample("c07:rule50", ref::to_fen(rp), 2);
        if (oInsuff) rep.sample("c07:insufficient", ref::to_fen(rp), 2);
        return true;
    };
    if (!check_here()) return false;
    // look-ahead with take-back on the live object: make a move (mates and stalemates first), ask there, unmake it, ask the
    // parent again — answers must not depend on what was asked in between (per-object memos that unmake forgets to reset)
    auto look_ahead = [&]() -> bool {
        std::vector<ref::Move> lm = ref::legal_moves(g.cur);
        if (lm.empty()) return true;
        ref::Move pick = lm[t.choose(uint32_t(lm.size()))];
        for (auto& m2 : lm)
        {
            ref::Pos q = ref::make(g.cur, m2);
            if (ref::legal_moves(q).empty())
            {
                pick = m2;  // the child is mate or stalemate: the sharpest difference between child and parent
                rep.cls("c07:look_ahead_into_mate_or_stalemate");
                break;
            }
        }
        ref::Game saved = g;
        std::string savedPlayed = played;
        Move em = pos.parse_uci(pick.uci());
        MoveInfo info = pos.do_move(em);
        g.play(pick);
        played += " " + pick.uci();
        if (!check_here()) return false;
        pos.undo_move(em, info);
        g = saved;
        played = savedPlayed + " (" + pick.uci() + " made, asked, and taken back)";
        rep.cls("c07:look_ahead_with_take_back");
        bool ok = check_here();
        played = savedPlayed;
        return ok;
    };
    bool lookAheads = t.chance(1, 3);
    for (const auto& m : game.moves)
    {
        pos.do_move(pos.parse_uci(m.uci()));
        g.play(m);
        played += " " + m.uci();
        if (!check_here()) return false;
        if (lookAheads && (ref::legal_moves(g.cur).size() < 6 || t.chance(1, 8)) && !look_ahead()) return false;
    }
    if (lookAheads && !look_ahead()) return false;
    rep.cls("c07:plies", game.moves.size());
    return true;
}

}  // namespace

REGISTER_PROP("C02", prop_C02, nullptr);
REGISTER_PROP("C03", prop_C03, nullptr);
REGISTER_PROP("C04", prop_C04, nullptr);
REGISTER_PROP("C07", prop_C07, nullptr);
