// C13 (static evaluation is colour-symmetric: metamorphic mirror relation)
// C14 (static evaluation is pure and bounded: warm-vs-fresh evaluator over generated histories)
#include "bridge.h"
#include "ucisession.h"
#include "registry.h"
#include "score.h"
#include "search.h"

#include <cstring>
#include <malloc.h>
#include <memory>
#include <unordered_map>

using namespace engine;

namespace
{
ref::Pos mirror(const ref::Pos& p)
{
    ref::Pos m;
    for (int s = 0; s < 64; ++s)
    {
        char c = p.b[s];
        int t = ref::SQ(ref::FL(s), 7 - ref::RK(s));
        if (c == '.') continue;
        m.b[t] = ref::is_white(c) ? char(std::tolower((unsigned char)c)) : char(std::toupper((unsigned char)c));
    }
    m.wtm = !p.wtm;
    m.cK = p.ck;
    m.cQ = p.cq;
    m.ck = p.cK;
    m.cq = p.cQ;
    m.ep = p.ep < 0 ? -1 : ref::SQ(ref::FL(p.ep), 7 - ref::RK(p.ep));
    m.half = p.half;
    m.full = p.full;
    return m;
}

// material signatures that select each specialised endgame evaluator (strong side pieces, weak side pieces)
struct Sig
{
    const char* name;
    const char* strong;
    const char* weak;
};
static const Sig SIGS[] = {
    {"KPK", "P", ""},        {"KPsK2", "PP", ""},     {"KPsK3", "PPP", ""},     {"KNBK", "NB", ""},      {"KQK", "Q", ""},
    {"KRK", "R", ""},        {"KXK_heavy", "QQR", ""}, {"KXK_RPP", "RPP", ""},  {"KBBK", "BB", ""},      {"KQKR", "Q", "R"},
    {"KRNKR", "RN", "R"},    {"KRBKR", "RB", "R"},    {"KBPK", "BP", ""},       {"KBPsK2", "BPP", ""},   {"KBPsK3", "BPPP", ""},
    {"KQKP", "Q", "P"},      {"KRKP", "R", "P"},      {"KNNK", "NN", ""},       {"KNNKP", "NN", "P"},    {"KBPKB", "BP", "B"},
    {"KBPsKB2", "BPP", "B"}, {"KBPsKB3", "BPPP", "B"}, {"KRKB", "R", "B"},      {"KRKN", "R", "N"},      {"KQKRP", "Q", "RP"},
    {"KQKRPP", "Q", "RPP"},  {"KBBKN", "BB", "N"},    {"KBNKN", "BN", "N"},     {"KNNKB", "NN", "B"},    {"KBBKB", "BB", "B"},
    {"KXK_max", "QQQQQQQQQRRBBNN", ""}, {"KXK_9Q1R", "QQQQQQQQQR", ""}, {"KQPKQ", "QP", "Q"},    {"KRPKR", "RP", "R"},    {"KNPKN", "NP", "N"},     {"KRRKR", "RR", "R"},    {"KQKBB", "Q", "BB"},
};
static const int NSIGS = int(sizeof(SIGS) / sizeof(SIGS[0]));

// place the pieces of a signature with geometric biases that reach the nested conditions inside the evaluators
ref::Pos gen_endgame(Tape& t, Report* rep, std::string* label)
{
    for (int attempt = 0; attempt < 6; ++attempt)
    {
        const Sig& sg = SIGS[t.choose(NSIGS)];
        bool strongWhite = !t.flag();
        ref::Pos p;
        auto put = [&](char kind, bool white, int sq) { p.b[sq] = white ? char(std::toupper((unsigned char)kind)) : char(std::tolower((unsigned char)kind)); };
        std::string S = sg.strong, W = sg.weak;
        int npS = int(std::count(S.begin(), S.end(), 'P'));
        // pawn files: rook file / adjacent files / same file / random
        int fileMode = int(t.choose(5));
        int baseFile = fileMode == 0 ? (t.flag() ? 0 : 7) : int(t.choose(8));
        std::vector<int> used;
        auto place_pawn = [&](bool white, int idx) -> bool {
            int f;
            if (fileMode == 0 || fileMode == 1) f = baseFile;                      // all on one file
            else if (fileMode == 2) f = std::min(7, std::max(0, baseFile + (idx & 1)));  // two adjacent files
            else if (fileMode == 3) f = (baseFile + idx * 2) % 8;
            else f = int(t.choose(8));
            // rank (from the owner's point of view): bias to advanced
            int rel = t.chance(1, 3) ? 6 : (t.chance(1, 2) ? 1 + int(t.choose(6)) : 3 + int(t.choose(4)));
            int r = white ? rel : 7 - rel;
            for (int k = 0; k < 6; ++k)
            {
                int s = ref::SQ(f, r);
                if (p.b[s] == '.')
                {
                    put('p', white, s);
                    return true;
                }
                rel = 1 + int(t.choose(6));
                r = white ? rel : 7 - rel;
            }
            return false;
        };
        bool ok = true;
        int pi = 0;
        for (char c : S)
            if (c == 'P') ok &= place_pawn(strongWhite, pi++);
        for (char c : W)
            if (c == 'P') ok &= place_pawn(!strongWhite, pi++);
        if (!ok) continue;
        // queening / blockade squares of the most advanced strong pawn
        int target = -1;
        {
            int best = -1;
            for (int s = 0; s < 64; ++s)
                if (p.b[s] == (strongWhite ? 'P' : 'p'))
                {
                    int rel = strongWhite ? ref::RK(s) : 7 - ref::RK(s);
                    if (rel > best)
                    {
                        best = rel;
                        target = s;
                    }
                }
            if (target < 0)
                for (int s = 0; s < 64; ++s)
                    if (p.b[s] == (strongWhite ? 'p' : 'P')) target = s;
        }
        auto near_square = [&](int anchor) -> int {
            // a free square within distance 2 of the anchor (or of its promotion square)
            int cand[64], n = 0;
            for (int s = 0; s < 64; ++s)
                if (p.b[s] == '.' && std::max(std::abs(ref::FL(s) - ref::FL(anchor)), std::abs(ref::RK(s) - ref::RK(anchor))) <= 2) cand[n++] = s;
            return n ? cand[t.choose(n)] : -1;
        };
        auto any_square = [&]() { return gen::free_square(t, p, false); };
        // weak king: near the blockade / queening square half of the time
        int wkS = -1;
        if (target >= 0 && t.chance(1, 2))
        {
            bool pawnWhite = ref::is_white(p.b[target]);
            int ahead = ref::SQ(ref::FL(target), std::min(7, std::max(0, ref::RK(target) + (pawnWhite ? 1 : -1))));
            int queening = ref::SQ(ref::FL(target), pawnWhite ? 7 : 0);
            int anchor = t.flag() ? ahead : queening;
            wkS = p.b[anchor] == '.' && t.flag() ? anchor : near_square(anchor);
        }
        if (wkS < 0) wkS = any_square();
        put('k', !strongWhite, wkS);
        // strong king
        {
            int cand[64], n = 0;
            for (int s = 0; s < 64; ++s)
                if (p.b[s] == '.' && std::max(std::abs(ref::FL(s) - ref::FL(wkS)), std::abs(ref::RK(s) - ref::RK(wkS))) > 1) cand[n++] = s;
            if (!n) continue;
            int s = cand[t.choose(n)];
            if (target >= 0 && t.chance(1, 3))
            {
                int ns = near_square(target);
                if (ns >= 0 && std::max(std::abs(ref::FL(ns) - ref::FL(wkS)), std::abs(ref::RK(ns) - ref::RK(wkS))) > 1) s = ns;
            }
            put('k', strongWhite, s);
        }
        // queen versus rook and pawns: the rook defended by a pawn that the king defends (fortress branch)
        bool rookPlaced = false;
        if (W.find('R') != std::string::npos && W.find('P') != std::string::npos && t.chance(1, 2))
        {
            for (int s = 0; s < 64 && !rookPlaced; ++s)
                if (p.b[s] == (strongWhite ? 'p' : 'P'))
                {
                    int r = ref::RK(s) + (strongWhite ? -1 : 1);  // the weak side's pawns attack toward the strong side's home
                    for (int df = -1; df <= 1 && !rookPlaced; df += 2)
                        if (ref::on_board(ref::FL(s) + df, r) && p.b[ref::SQ(ref::FL(s) + df, r)] == '.')
                        {
                            put('r', !strongWhite, ref::SQ(ref::FL(s) + df, r));
                            rookPlaced = true;
                        }
                }
        }
        // other pieces: near the pawns half of the time (blockades, defended rooks, bishops on the long lines)
        for (int side = 0; side < 2; ++side)
            for (char c : (side == 0 ? S : W))
            {
                if (c == 'P') continue;
                if (c == 'R' && side == 1 && rookPlaced) continue;
                int s = (target >= 0 && t.chance(1, 2)) ? near_square(target) : any_square();
                if (s < 0) s = any_square();
                if (s < 0) continue;
                put(c, side == 0 ? strongWhite : !strongWhite, s);
            }
        p.wtm = !t.flag();
        (void)npS;
        gen::repair_not_to_move_check(p);
        if (!ref::domain_violation(p).empty()) continue;
        if (ref::insufficient_material(p)) continue;
        // the repair may have removed a piece: label by what is actually on the board
        if (label) *label = std::string(sg.name) + (strongWhite ? "_white_strong" : "_black_strong");
        if (rep) rep->cls(std::string("eval:sig_") + sg.name + (strongWhite ? "_w" : "_b"));
        return p;
    }
    if (label) *label = "general";
    return gen::gen_fen(t, rep);
}

// Branch-directed constructor for the bishop-and-pawns-versus-bishop blockade logic: pawns on exactly two adjacent
// files, the leading pawn alone on its file and on the strong bishop's colour, the weak king on one blockade square and
// the weak bishop aiming at the other one along a diagonal that may be interrupted by another piece.
ref::Pos gen_kbpskb_blockade(Tape& t, Report* rep, std::string* label)
{
    for (int attempt = 0; attempt < 6; ++attempt)
    {
        bool strongWhite = !t.flag();
        auto R = [&](int rel) { return strongWhite ? rel : 7 - rel; };  // relative rank -> board rank
        ref::Pos p;
        int f1 = int(t.choose(8));
        int f2 = f1 == 0 ? 1 : (f1 == 7 ? 6 : (t.flag() ? f1 + 1 : f1 - 1));
        int r1 = 2 + int(t.choose(5));  // relative rank of the leading pawn: 2..6
        int lead = ref::SQ(f1, R(r1));
        p.b[lead] = strongWhite ? 'P' : 'p';
        int n2 = 1 + int(t.choose(2));
        for (int i = 0; i < n2; ++i)
        {
            int rr = 1 + int(t.choose(uint32_t(r1 - 1)));  // strictly behind the leading pawn
            int s = ref::SQ(f2, R(rr));
            if (p.b[s] == '.') p.b[s] = strongWhite ? 'P' : 'p';
        }
        int block1 = ref::SQ(f1, R(r1 + 1)), block2 = ref::SQ(f2, R(r1));
        if (p.b[block2] != '.') continue;
        bool kingOn1 = t.flag();
        int ks = kingOn1 ? block1 : block2, other = kingOn1 ? block2 : block1;
        p.b[ks] = strongWhite ? 'k' : 'K';
        // weak bishop on a diagonal through the other blockade square (or on it)
        int wb = -1;
        {
            int cand[32], n = 0;
            for (int d = 1; d < 8; d += 2)  // the four diagonal directions in ref::DIR_*
            {
                int f = ref::FL(other) + ref::DIR_DF[d], r = ref::RK(other) + ref::DIR_DR[d];
                while (ref::on_board(f, r))
                {
                    if (p.b[ref::SQ(f, r)] == '.') cand[n++] = ref::SQ(f, r);
                    f += ref::DIR_DF[d];
                    r += ref::DIR_DR[d];
                }
            }
            if (t.chance(1, 8) && p.b[other] == '.') wb = other;
            else if (n) wb = cand[t.choose(n)];
        }
        if (wb < 0) continue;
        p.b[wb] = strongWhite ? 'b' : 'B';
        // strong bishop on the colour of the leading pawn's square
        {
            int cand[64], n = 0;
            for (int s = 0; s < 64; ++s)
                if (p.b[s] == '.' && ((ref::FL(s) + ref::RK(s)) & 1) == ((ref::FL(lead) + ref::RK(lead)) & 1)) cand[n++] = s;
            if (!n) continue;
            p.b[cand[t.choose(n)]] = strongWhite ? 'B' : 'b';
        }
        // strong king: often on the line between the weak bishop and the blockade square (interposition)
        {
            int between[8], nb = 0;
            int df = ref::FL(other) - ref::FL(wb), dr = ref::RK(other) - ref::RK(wb);
            if (df != 0 && std::abs(df) == std::abs(dr))
            {
                int sf = df > 0 ? 1 : -1, sr = dr > 0 ? 1 : -1;
                for (int f = ref::FL(wb) + sf, r = ref::RK(wb) + sr; f != ref::FL(other); f += sf, r += sr)
                    if (p.b[ref::SQ(f, r)] == '.') between[nb++] = ref::SQ(f, r);
            }
            int cand[64], n = 0;
            for (int s = 0; s < 64; ++s)
                if (p.b[s] == '.' && std::max(std::abs(ref::FL(s) - ref::FL(ks)), std::abs(ref::RK(s) - ref::RK(ks))) > 1) cand[n++] = s;
            if (!n) continue;
            int s = cand[t.choose(n)];
            if (nb && t.chance(1, 2))
            {
                int b = between[t.choose(nb)];
                if (std::max(std::abs(ref::FL(b) - ref::FL(ks)), std::abs(ref::RK(b) - ref::RK(ks))) > 1) s = b;
            }
            p.b[s] = strongWhite ? 'K' : 'k';
        }
        p.wtm = !t.flag();
        gen::repair_not_to_move_check(p);
        if (!ref::domain_violation(p).empty()) continue;
        if (ref::count(p, 'B') != 1 || ref::count(p, 'b') != 1) continue;
        if (label) *label = std::string("KBPsKBblockade") + (strongWhite ? "_white_strong" : "_black_strong");
        if (rep) rep->cls(std::string("eval:kbpskb_blockade_") + (strongWhite ? "w" : "b"));
        return p;
    }
    return gen_endgame(t, rep, label);
}

ref::Pos gen_eval_position(Tape& t, Report* rep, std::string* label)
{
    if (t.chance(1, 8)) return gen_kbpskb_blockade(t, rep, label);
    switch (t.weighted({4, 3, 1}))
    {
    case 0: return gen_endgame(t, rep, label);
    case 1:
    {
        gen::Root r = gen::gen_root(t, rep, 80);
        if (label) *label = "general_" + r.kind;
        return r.cur;
    }
    default:
    {
        if (label) *label = "heavy";
        return gen::gen_fen(t, rep, 4);
    }
    }
}

PositionScorer& scorerA()
{
    static PositionScorer* s = new PositionScorer();
    return *s;
}

Value fresh_score(const ref::Pos& p)
{
    auto s = std::make_unique<PositionScorer>();
    Position pos(ref::to_fen(p));
    return s->score(pos);
}

bool prop_C13(Tape& t, Report& rep)
{
    br::init_engine();
    for (int i = 0; i < 8; ++i)
    {
        std::string label;
        ref::Pos p = gen_eval_position(t, &rep, &label);
        if (ref::insufficient_material(p)) continue;
        ref::Pos m = mirror(p);
        rep.decoded = label + " " + ref::to_fen(p) + " | mirror " + ref::to_fen(m);
        Position a(ref::to_fen(p)), b(ref::to_fen(m));
        Value va = scorerA().score(a), vb = scorerA().score(b);
        rep.eval();
        rep.nontriv(fnv1a(ref::key4(p)));
        rep.sample("c13:" + label, ref::to_fen(p) + " = " + std::to_string(va), 1);
        if (va != vb)
        {
            // confirm with fresh evaluators so that a cache defect (C14's concern) cannot be blamed on symmetry
            Value fa = fresh_score(p), fb = fresh_score(m);
            if (fa != fb)
                return rep.fail("symmetry:" + label.substr(0, label.find('_')),
                                "evaluation differs between a position and its colour mirror (" + label + ")\n " + ref::to_fen(p) + " -> " +
                                    std::to_string(fa) + "\n " + ref::to_fen(m) + " -> " + std::to_string(fb));
            rep.cls("c13:difference_only_with_warm_cache");
        }
    }
    return true;
}

// ---- C14 -------------------------------------------------------------------------------------
struct SlotInfo
{
    std::vector<std::pair<std::string, std::string>> collisions;  // pawn-structure FEN pairs sharing a cache slot
    std::vector<std::string> slot0;                               // structures whose pawn key has low 18 bits zero
    bool built = false;
};
SlotInfo& slotinfo()
{
    static SlotInfo s;
    return s;
}

std::string pawn_fen(const std::vector<std::pair<int, char>>& pawns)
{
    ref::Pos p;
    p.b[4] = 'K';
    p.b[60] = 'k';
    for (auto& pr : pawns) p.b[pr.first] = pr.second;
    // add rooks so that no specialised endgame evaluator intercepts the position
    p.b[0] = 'R';
    p.b[63] = 'r';
    p.b[7] = 'R';
    return ref::to_fen(p);
}

void build_slotinfo(Report& rep)
{
    SlotInfo& S = slotinfo();
    if (S.built) return;
    S.built = true;
    constexpr uint64_t MASK = 512 * 512 - 1;
    std::unordered_map<uint64_t, std::string> bySlot;
    long want0 = opt_int("slot0_search", 700000);
    long tried = 0;
    auto consider = [&](const std::vector<std::pair<int, char>>& pawns) {
        std::string f = pawn_fen(pawns);
        Position pos(f);
        uint64_t k = pos.pawn_hash();
        ++tried;
        if ((k & MASK) == 0 && k != 0 && S.slot0.size() < 4)
        {
            ref::Pos q;
            if (ref::from_fen(f, q) && ref::domain_violation(q).empty()) S.slot0.push_back(f);
        }
        if (tried < 6000)
        {
            auto it = bySlot.find(k & MASK);
            if (it == bySlot.end()) bySlot[k & MASK] = f;
            else if (S.collisions.size() < 64 && it->second != f)
            {
                ref::Pos q1, q2;
                if (ref::from_fen(f, q1) && ref::domain_violation(q1).empty() && ref::from_fen(it->second, q2) && ref::domain_violation(q2).empty())
                    S.collisions.push_back({it->second, f});
            }
        }
    };
    // deterministic enumeration of small pawn structures (squares 8..55; pawn_fen adds kings and rooks)
    for (int a = 8; a < 56; ++a)
    {
        consider({{a, 'P'}});
        consider({{a, 'p'}});
        for (int b = a + 1; b < 56; ++b)
            for (int pat = 0; pat < 4; ++pat) consider({{a, pat & 1 ? 'P' : 'p'}, {b, pat & 2 ? 'P' : 'p'}});
    }
    for (int a = 8; a < 56 && tried < want0 && S.slot0.empty(); ++a)
        for (int b = a + 1; b < 56 && tried < want0 && S.slot0.empty(); ++b)
            for (int c = b + 1; c < 56 && tried < want0 && S.slot0.empty(); ++c)
                for (int pat = 0; pat < 8; ++pat) consider({{a, pat & 1 ? 'P' : 'p'}, {b, pat & 2 ? 'P' : 'p'}, {c, pat & 4 ? 'P' : 'p'}});
    for (int a = 8; a < 56 && tried < want0 && S.slot0.empty(); ++a)
        for (int b = a + 1; b < 56 && tried < want0 && S.slot0.empty(); ++b)
            for (int c = b + 1; c < 56 && tried < want0 && S.slot0.empty(); ++c)
                for (int d = c + 1; d < 56 && tried < want0 && S.slot0.empty(); ++d)
                {
                    int pat = (a * 7 + b * 5 + c * 3 + d) & 15;
                    consider({{a, pat & 1 ? 'P' : 'p'}, {b, pat & 2 ? 'P' : 'p'}, {c, pat & 4 ? 'P' : 'p'}, {d, pat & 8 ? 'P' : 'p'}});
                }
    rep.cls("c14:slot_search_structures_tried", uint64_t(tried));
    rep.cls("c14:slot_collision_pairs_found", S.collisions.size());
    rep.cls("c14:slot0_structures_found", S.slot0.size());
}

ref::Pos pawnless(Tape& t)
{
    // pawnless positions that are not caught by a specialised endgame evaluator
    static const char* L[] = {"4k2r/8/8/8/8/8/8/R3K2R w KQk - 0 1", "r3k2r/8/8/8/8/8/8/R3K2R b KQkq - 0 1", "2q1k3/8/8/8/8/8/8/R2QK3 w - - 0 1",
                              "1n2k1r1/8/8/8/8/8/8/RB2K1N1 w - - 0 1", "3rkb2/8/8/8/8/8/8/2QRK3 b - - 0 1", "qq2k3/8/8/8/8/8/8/QQ2K3 w - - 0 1"};
    ref::Pos p;
    ref::from_fen(L[t.choose(6)], p);
    return p;
}

bool prop_C14(Tape& t, Report& rep)
{
    br::init_engine();
    static bool tuned = false;
    if (!tuned)
    {
        // keep the 8 MB evaluator tables on the heap free list instead of mmap/munmap per construction
        tuned = true;
        mallopt(M_MMAP_THRESHOLD, 256 << 20);
        mallopt(M_TRIM_THRESHOLD, 1 << 30);
    }
    if (t.chance(1, 30)) return us::run(t, rep, us::F_C14);
    build_slotinfo(rep);
    SlotInfo& S = slotinfo();
    // one long-lived evaluator per history (an 8 MB table; histories are short, so allocate per case)
    auto warm = std::make_unique<PositionScorer>();
    int nops = 2 + int(t.choose(10));
    std::string trace;
    bool sawHit = false, sawCollision = false, sawClearPawnless = false, cleared = false;
    std::vector<ref::Pos> seen;
    uint64_t fp = 0;
    // The pawn cache is allowed to confuse two structures whose full 64-bit keys are equal (the engine's accepted risk).
    // With full-entropy keys that never happens; shards that run with a Zobrist entropy window (opt zmask: all keys are
    // zero outside a 24-bit window, so any table that indexes or verifies with only part of the key sees every pair
    // collide) do produce such pairs now and then: a history that contains one is dropped and counted.
    std::unordered_map<uint64_t, std::string> pawnKeys;
    const bool masked = !opt("zmask").empty();
    auto fullKeyCollision = [&](const ref::Pos& p) {
        if (!masked) return false;  // with full-entropy keys two structures never share a 64-bit key
        // the key is taken from a freshly loaded position, never from the object under test (a stale incremental key there
        // is a defect, not a collision)
        Position pos(ref::to_fen(p));
        std::string structure;
        for (int s = 0; s < 64; ++s)
            if (ref::lower(p.b[s]) == 'p') structure += char('0' + s / 8), structure += char('a' + s % 8), structure += p.b[s];
        auto ins = pawnKeys.emplace(pos.pawn_hash(), structure);
        return !ins.second && ins.first->second != structure;
    };
    if (!opt("zmask").empty()) rep.cls("c14:case_with_zobrist_entropy_window");
    for (int i = 0; i < nops; ++i)
    {
        int op = t.weighted({5, 2, 2, 2, 2, 1, 3});
        ref::Pos p;
        std::string what;
        if (op == 0)
        {
            std::string label;
            p = gen_eval_position(t, &rep, &label);
            what = label;
        }
        else if (op == 1 && !seen.empty())
        {
            // same pawn structure, different pieces: move / delete a non-pawn piece of an earlier position
            p = seen[t.choose(uint32_t(seen.size()))];
            for (int k = 0; k < 3; ++k)
            {
                int s = int(t.choose(64));
                char c = p.b[s];
                if (c != '.' && ref::lower(c) != 'p' && ref::lower(c) != 'k')
                {
                    p.b[s] = '.';
                    int d = gen::free_square(t, p, false);
                    if (d >= 0 && t.flag()) p.b[d] = c;
                }
            }
            gen::fix_rights(p);
            p.ep = -1;
            gen::repair_not_to_move_check(p);
            gen::fix_rights(p);
            if (!ref::domain_violation(p).empty()) continue;
            what = "same_pawns_other_pieces";
            sawHit = true;
            rep.cls("c14:pawn_cache_hit_expected");
        }
        else if (op == 6 && !seen.empty())
        {
            // an earlier position minus ALL pieces of some kinds of one side (all sliders, all knights, the queens, every
            // piece): whatever the evaluator computed per square for the earlier position and skips when "there is no such
            // piece" is still in its members, and everything else stands on the same squares
            p = seen[t.choose(uint32_t(seen.size()))];
            bool white = t.flag();
            static const char* SETS[] = {"brq", "n", "q", "r", "b", "nbrq", "rq"};
            const char* set = SETS[t.choose(7)];
            int removed = 0;
            for (int sq = 0; sq < 64; ++sq)
                if (p.b[sq] != '.' && ref::is_white(p.b[sq]) == white && strchr(set, ref::lower(p.b[sq])))
                {
                    p.b[sq] = '.';
                    ++removed;
                }
            gen::fix_rights(p);
            p.ep = -1;
            gen::repair_not_to_move_check(p);
            gen::fix_rights(p);
            if (!removed || !ref::domain_violation(p).empty() || ref::insufficient_material(p)) continue;
            what = std::string("earlier_position_minus_") + (white ? "white_" : "black_") + set;
            sawHit = true;
            rep.cls("c14:earlier_position_minus_a_piece_kind");
        }
        else if (op == 2 && !S.collisions.empty())
        {
            // two different pawn structures that share a cache slot, evaluated back to back (and again)
            auto& pr = S.collisions[t.choose(uint32_t(S.collisions.size()))];
            ref::from_fen(t.flag() ? pr.first : pr.second, p);
            what = "slot_collision_member";
            sawCollision = true;
            rep.cls("c14:slot_collision_eval");
        }
        else if (op == 3)
        {
            warm->clear();
            cleared = true;
            trace += " clear()";
            rep.cls("c14:clear");
            continue;
        }
        else if (op == 4 && t.flag())
        {
            // a small fixed pool that is re-evaluated in many different histories
            static const char* POOL[] = {"4k3/8/8/4P3/4K3/8/8/8 w - - 0 1", "k7/8/8/8/8/8/P7/K7 w - - 0 1", "8/8/8/8/8/5K2/p4Q2/1k6 w - - 0 1",
                                         "4k3/8/8/8/8/8/8/3QK3 w - - 0 1", "4k3/8/8/8/8/8/8/3RK3 b - - 0 1", "8/5k2/8/8/3K4/8/1r3P2/4R3 w - - 0 1",
                                         "r1bqkbnr/pppp1ppp/2n5/4p3/4P3/5N2/PPPP1PPP/RNBQKB1R w KQkq - 2 3", "8/8/4k3/4p3/4P3/4K3/8/8 b - - 0 1"};
            ref::from_fen(POOL[t.choose(8)], p);
            what = "fixed_pool";
            rep.cls("c14:fixed_pool_eval");
        }
        else if (op == 4)
        {
            p = pawnless(t);
            what = "pawnless";
            if (cleared)
            {
                sawClearPawnless = true;
                rep.cls("c14:pawnless_after_clear");
            }
        }
        else if (op == 5 && !S.slot0.empty())
        {
            ref::from_fen(S.slot0[t.choose(uint32_t(S.slot0.size()))], p);
            what = "slot0_structure";
            rep.cls("c14:slot0_structure_eval");
        }
        else
        {
            std::string label;
            p = gen_eval_position(t, &rep, &label);
            what = label;
        }
        seen.push_back(p);
        Position pos(ref::to_fen(p));
        if (fullKeyCollision(p))
        {
            rep.cls("c14:excluded_full_pawn_key_collision");
            return true;
        }
        Value w = warm->score(pos);
        Value f = fresh_score(p);
        rep.eval();
        {
            // purity across histories: the first value ever seen for a position (process-wide) must be the value every
            // later evaluation gives, whatever was evaluated in between (catches state outside the evaluator object)
            static std::unordered_map<std::string, Value> firstSeen;
            std::string k4 = ref::key4(p);
            auto it = firstSeen.find(k4);
            if (it == firstSeen.end())
            {
                if (firstSeen.size() < 400000) firstSeen.emplace(k4, f);
            }
            else
            {
                rep.cls("c14:re_evaluated_in_another_history");
                if (it->second != f)
                    return rep.fail("purity:history:" + what, "a fresh evaluator gives " + std::to_string(f) + " for " + ref::to_fen(p) + " but gave " +
                                                                  std::to_string(it->second) + " earlier in this process: the evaluation depends on what was evaluated before\n history:" + trace);
            }
        }
        trace += " eval(" + ref::to_fen(p) + ")";
        fp = mix64(fp ^ fnv1a(ref::key4(p)));
        rep.decoded = "history:" + trace;
        if (w != f)
            return rep.fail(std::string("purity:") + (cleared ? "after_clear" : "warm_cache") + ":" + what,
                            "evaluation on a long-lived evaluator (" + std::to_string(w) + ") differs from a fresh evaluator (" + std::to_string(f) +
                                ") for " + ref::to_fen(p) + " [" + what + "]\n history:" + trace);
        std::string s2 = score2str(f);
        if (s2.rfind("mate", 0) == 0 || f >= VALUE_INFINITE || f <= -VALUE_INFINITE)
            return rep.fail("bounded:mate_band", "static evaluation " + std::to_string(f) + " prints as '" + s2 + "' for " + ref::to_fen(p));
        if (std::abs(f) >= VALUE_KNOWN_WIN) rep.cls("c14:known_win_band");
    }
    // positions reached by playing moves on one Position object (what the search evaluates): warm evaluator on the played
    // object vs a fresh evaluator on the same position loaded from its FEN
    if (t.chance(1, 3))
    {
        gen::Root g = gen::gen_game(t, &rep, 40);
        Position played(ref::to_fen(g.start));
        ref::Pos rp = g.start;
        std::string moves;
        for (auto& m : g.moves)
        {
            bool pawnMove = ref::lower(rp.b[m.from]) == 'p';
            played.do_move(played.parse_uci(m.uci()));
            rp = ref::make(rp, m);
            moves += " " + m.uci();
            if (!t.chance(1, 2) && !pawnMove) continue;
            if (ref::insufficient_material(rp)) continue;
            if (fullKeyCollision(rp))
            {
                rep.cls("c14:excluded_full_pawn_key_collision");
                return true;
            }
            Value w = warm->score(played);
            Value f = fresh_score(rp);
            rep.eval();
            rep.cls("c14:played_position_eval");
            if (w != f)
                return rep.fail("purity:played_position", "evaluation of a position reached by playing moves (" + std::to_string(w) + ") differs from a fresh evaluator on the same position loaded from its FEN (" +
                                                              std::to_string(f) + ")\n fen=" + ref::to_fen(rp) + "\n game: fen=" + ref::to_fen(g.start) + " moves" + moves + "\n earlier history:" + trace);
        }
    }
    // the deterministic worst case for clear(): slot-0 structure, clear, pawnless
    if (!S.slot0.empty() && t.chance(1, 4))
    {
        auto w2 = std::make_unique<PositionScorer>();
        ref::Pos a;
        ref::from_fen(S.slot0[0], a);
        Position pa(ref::to_fen(a));
        w2->score(pa);
        w2->clear();
        ref::Pos b = pawnless(t);
        Position pb(ref::to_fen(b));
        Value w = w2->score(pb), f = fresh_score(b);
        rep.eval();
        rep.cls("c14:slot0_clear_pawnless_sequence");
        sawClearPawnless = true;
        if (w != f)
            return rep.fail("purity:after_clear:pawnless", "after evaluating " + S.slot0[0] + " and clear(), the pawnless position " + ref::to_fen(b) +
                                                               " evaluates to " + std::to_string(w) + " instead of " + std::to_string(f));
    }
    if (sawHit || sawCollision || sawClearPawnless)
    {
        rep.nontriv(fp);
        rep.sample(sawClearPawnless ? "c14:clear_then_pawnless" : (sawCollision ? "c14:slot_collision" : "c14:cache_hit"), trace.substr(0, 500), 2);
    }
    return true;
}

}  // namespace

REGISTER_PROP("C13", prop_C13, nullptr);
REGISTER_PROP("C14", prop_C14, nullptr);
