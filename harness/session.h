// C10 — well-formed UCI sessions decoded from a choice tape and fed to an in-process Uci (reader thread + detached
// search thread, exactly as the engine runs).  Shared by the rapidcheck property (pbt_session.cpp) and the libFuzzer
// target (fuzz_uci.cpp).  A well-formed GUI waits for `bestmove` before the next command that touches the position;
// the harness bounds every search with a node-visit cap delivered from the search thread itself.
// The oracle is the sanitizer (ASan, fatal UBSan checks) — the semantic content is in the generator: it walks every
// fixed-size buffer's boundary (game length, depth, move count, piece counts, searchmoves).
#pragma once
#include "../ref/refpolyglot.h"
#include "bridge.h"
#include "registry.h"
#include "ucirig.h"
#include "verif_hooks.h"

#include <fstream>
#include <unistd.h>

namespace sess
{
struct Ctl
{
    std::atomic<uint64_t> visits{0};
    std::atomic<uint64_t> cap{20000};
    std::atomic<uint64_t> nodes_per_ms{500};
};
inline Ctl& ctl()
{
    static Ctl c;
    return c;
}
inline void cb(int point, engine::Search* s)
{
    if (point != engine::verif::NODE && point != engine::verif::QNODE) return;
    Ctl& C = ctl();
    uint64_t v = C.visits.fetch_add(1, std::memory_order_relaxed) + 1;
    engine::verif::virtual_elapsed_ms = int64_t(v / C.nodes_per_ms.load(std::memory_order_relaxed));
    uint64_t cap = C.cap.load(std::memory_order_relaxed);
    if (v == cap || (v > cap && (v - cap) % 20000 == 0)) s->stop();
}

struct Stats
{
    std::map<std::string, uint64_t> cls;
    std::string transcript;  // commands sent (truncated)
    bool boundary = false;   // crossed at least one buffer boundary
};

// Record mode (prop C10script): nothing is sent to an engine; the commands are written to a script for an external engine
// process (the real executable under valgrind).  Lines starting with '@' tell the driver what to wait for.
inline std::vector<std::string>*& recording()
{
    static std::vector<std::string>* r = nullptr;
    return r;
}

struct Runner
{
    rigns::Rig* Rp;
    Stats& st;
    Tape& t;
    ref::Pos cur;  // oracle copy of the engine's current position
    int plies = 0;
    std::string tmpdir;
    explicit Runner(Tape& tape, Stats& s) : Rp(recording() ? nullptr : &rigns::rig()), st(s), t(tape), cur(ref::startpos()) {}

    void send(const std::string& c)
    {
        if (st.transcript.size() < 3000) st.transcript += (c.size() > 300 ? c.substr(0, 300) + "...(" + std::to_string(c.size()) + " chars)" : c) + " ; ";
        if (recording())
        {
            recording()->push_back(c);
            return;
        }
        Rp->send(c);
    }
    bool sync()
    {
        if (recording())
        {
            recording()->push_back("isready");
            recording()->push_back("@wait readyok");
            return true;
        }
        rigns::Rig& R = *Rp;
        size_t m = R.out.size();
        R.send("isready");
        return R.out.wait_line(m, [](const std::string& l) { return l == "readyok"; }, 120000) >= 0;
    }
    // go + wait for the single bestmove
    bool go(const std::string& cmd, bool sendStop)
    {
        if (recording())
        {
            send(cmd);
            if (sendStop) send("stop");
            recording()->push_back("@wait bestmove");
            return true;
        }
        rigns::Rig& R = *Rp;
        ctl().visits = 0;
        size_t m = R.out.size();
        send(cmd);
        if (sendStop) send("stop");
        long bm = R.out.wait_line(m, rigns::is_bestmove, 180000);
        if (bm < 0)
        {
            R.send("stop");
            bm = R.out.wait_line(m, rigns::is_bestmove, 180000);
            st.cls["c10:go_needed_second_stop"]++;
        }
        return bm >= 0;
    }

    void set_position(const gen::Root& g)
    {
        std::string c = ref::key4(g.start) == ref::key4(ref::startpos()) && g.start.half == 0 && g.start.full == 1 ? std::string("position startpos")
                                                                                                                    : "position fen " + ref::to_fen(g.start);
        if (!g.moves.empty())
        {
            c += " moves";
            for (auto& m : g.moves) c += " " + m.uci();
        }
        send(c);
        cur = g.cur;
        plies = int(g.moves.size());
        if (plies >= 720) { st.cls["c10:game_ge_720_plies"]++; st.boundary = true; }
        if (plies >= 800) st.cls["c10:game_ge_800_plies"]++;
    }

    void label_position()
    {
        std::vector<ref::Move> ms = ref::legal_moves(cur);
        if (ms.size() >= 128) { st.cls["c10:ge128_legal_moves"]++; st.boundary = true; }
        for (char c : {'Q', 'R', 'B', 'N', 'q', 'r', 'b', 'n'})
            if (ref::count(cur, c) >= 9) { st.cls["c10:ge9_of_a_kind"]++; st.boundary = true; break; }
    }
};

using gen::long_game;

inline std::string go_command(Tape& t, Runner& r, bool& sendStop)
{
    sendStop = false;
    std::string c = "go";
    int kind = t.weighted({5, 2, 2, 2, 1, 1});
    switch (kind)
    {
    case 0:
    {
        int d = t.chance(1, 4) ? 1 + int(t.choose(100)) : 1 + int(t.choose(4));
        c += " depth " + std::to_string(d);
        if (d > 40) { r.st.cls["c10:depth_gt_40"]++; r.st.boundary = true; }
        break;
    }
    case 1: c += " nodes " + std::to_string(1 + t.choose(20000)); break;
    case 2:
    {
        static const int MT[] = {-7, 0, 1, 2, 10, 50};
        c += " movetime " + std::to_string(MT[t.choose(6)]);
        break;
    }
    case 3:
    {
        static const int TL[] = {-1, 1, 10, 300, 60000, 86400000};
        c += " wtime " + std::to_string(TL[t.choose(6)]) + " btime " + std::to_string(TL[t.choose(6)]) + " winc " + std::to_string(t.choose(3) * 500) +
             " binc " + std::to_string(t.choose(3) * 500);
        if (t.flag()) c += " movestogo " + std::to_string(t.choose(201));
        break;
    }
    case 4:
        // with an immediate stop, or left running until the engine ends it by itself / the harness's visit cap stops it
        // (in blocked or bare endings dozens of iterations complete within the cap)
        c += " infinite";
        sendStop = t.flag();
        if (!sendStop) r.st.cls["c10:go_infinite_left_running"]++;
        break;
    default: break;  // bare "go": default depth
    }
    if (recording())
    {
        // the external process has no visit cap: only limits that end quickly by themselves
        int k2 = kind;
        if (kind == 4) sendStop = true;
        if (kind == 0 || kind == 5) c = "go depth " + std::to_string(1 + t.choose(3));
        else if (kind == 1) c = "go nodes " + std::to_string(1 + t.choose(3000));
        else if (kind == 2) c = "go movetime " + std::to_string(t.choose(60));
        else if (kind == 3) c = "go wtime " + std::to_string(1 + t.choose(600)) + " btime " + std::to_string(1 + t.choose(600)) + " winc 0 binc 0";
        (void)k2;
    }
    if (t.chance(1, 5))
    {
        std::vector<ref::Move> ms = ref::legal_moves(r.cur);
        if (!ms.empty())
        {
            std::string sm = " searchmoves";
            bool all = t.chance(1, 3);
            for (auto& m : ms)
                if (all || t.chance(1, 3)) sm += " " + m.uci();
            if (sm.back() == 's') sm += " " + ms[0].uci();
            if (all && ms.size() >= 100) r.st.cls["c10:searchmoves_ge100"]++;
            // UCI fixes no order for the parameters of `go`: the move list may be followed by the other limits
            if (t.chance(1, 3) && c.size() > 2)
            {
                c = "go" + sm + c.substr(2);
                r.st.cls["c10:searchmoves_before_other_limits"]++;
            }
            else
                c += sm;
        }
    }
    return c;
}

inline std::string write_book(Tape& t, Runner& r)
{
    static int bookCounter = 0;
    std::string path = r.tmpdir + "/verif-sess-book-" + std::to_string(getpid()) + (recording() ? "-" + std::to_string(bookCounter++) : std::string()) + ".bin";
    std::ofstream o(path, std::ios::binary);
    int n = int(t.choose(6));
    uint64_t key = ref::polyglot_key(r.cur);
    std::vector<ref::Move> ms = ref::legal_moves(r.cur);
    for (int i = 0; i < n && !ms.empty(); ++i)
    {
        const ref::Move& m = ms[t.choose(uint32_t(ms.size()))];
        int promo = m.promo == 'n' ? 1 : m.promo == 'b' ? 2 : m.promo == 'r' ? 3 : m.promo == 'q' ? 4 : 0;
        int to = m.to;
        if (ref::is_castle(r.cur, m)) to = ref::SQ(ref::FL(m.to) == 6 ? 7 : 0, ref::RK(m.to));
        uint16_t code = uint16_t((promo << 12) | (ref::RK(m.from) << 9) | (ref::FL(m.from) << 6) | (ref::RK(to) << 3) | ref::FL(to));
        uint16_t w = uint16_t(t.choose(6));  // 0..5: a key may have a zero-weight record, or only zero-weight records
        char rec[16];
        for (int b = 0; b < 8; ++b) rec[b] = char((key >> (8 * (7 - b))) & 0xFF);
        rec[8] = char(code >> 8);
        rec[9] = char(code & 0xFF);
        rec[10] = char(w >> 8);
        rec[11] = char(w & 0xFF);
        rec[12] = rec[13] = rec[14] = rec[15] = 0;
        o.write(rec, 16);
    }
    return path;
}

// one generated session; returns false only if the engine stopped answering (treated as a hang by the caller)
inline bool run_session(Tape& t, Stats& st, Report* rep, const std::string& tmpdir)
{
    static bool init = false;
    if (!init && !recording())
    {
        init = true;
        br::init_engine();
        engine::verif::virtual_clock = true;
        engine::verif::callback = &cb;
    }
    Runner r(t, st);
    r.tmpdir = tmpdir;
    ctl().cap = uint64_t(opt_int("session_cap", 15000));
    ctl().nodes_per_ms = 1 + t.choose(1000);
    r.send("ucinewgame");
    r.send("setoption name Polyglot Book value /nonexistent-verif-book");
    int ncmd = 1 + int(t.choose(10));
    bool have_pos = false;
    for (int i = 0; i < ncmd; ++i)
    {
        int op = have_pos ? t.weighted({4, 6, 1, 1, 1, 1, 1, 1, 1, 1}) : 0;
        switch (op)
        {
        case 0:
        {
            // a new position: short game, constructed FEN, themed, heavy, or a long game
            int pk = t.weighted({4, 3, 2, 2, 1, 2});
            gen::Root g;
            if (pk == 5)
            {
                // endings in which every iteration costs a handful of nodes, so that depth-indexed arrays are exercised up
                // to (and past) the last iteration: bare kings, a lone minor piece, kings with mutually blocked pawns
                ref::Pos q;
                gen::place_kings(t, q, false);
                int kind = int(t.choose(3));
                if (kind == 1)
                {
                    int sq = gen::free_square(t, q, false);
                    if (sq >= 0) q.b[sq] = "NBnb"[t.choose(4)];
                }
                else if (kind == 2)
                {
                    int pairs = 1 + int(t.choose(3));
                    for (int k = 0; k < pairs; ++k)
                    {
                        int f = int(t.choose(8)), rk = 1 + int(t.choose(5));
                        if (q.b[ref::SQ(f, rk)] == '.' && q.b[ref::SQ(f, rk + 1)] == '.')
                        {
                            q.b[ref::SQ(f, rk)] = 'P';
                            q.b[ref::SQ(f, rk + 1)] = 'p';
                        }
                    }
                }
                q.wtm = !t.flag();
                gen::repair_not_to_move_check(q);
                if (ref::domain_violation(q).empty() && !ref::legal_moves(q).empty())
                {
                    g.start = g.cur = q;
                    st.cls["c10:tiny_ending_position"]++;
                }
                else
                    g = gen::gen_root(t, rep, 20);
            }
            else if (pk == 0) g = gen::gen_game(t, rep, 120);
            else if (pk == 1) g = gen::gen_root(t, rep, 60);
            else if (pk == 2)
            {
                g.start = g.cur = t.flag() ? gen::gen_fen(t, rep, 4) : gen::theme_swarm(t, rep);
            }
            else if (pk == 3)
            {
                g.start = g.cur = gen::fen_pos(gen::CATALOG[t.choose(gen::CATALOG_N)]);
            }
            else
            {
                int hi = int(opt_int("max_game_plies", 1200));
                g = long_game(t, rep, std::min(700, hi), hi);
            }
            // a recorded known finding may exclude over-long games by construction (counted)
            long lim = opt_int("exclude_game_plies_ge", 0);
            if (lim > 0 && long(g.moves.size()) >= lim)
            {
                st.cls["c10:excluded_long_game"]++;
                g.moves.resize(size_t(lim - 1));
                ref::Game gg(g.start);
                for (auto& m : g.moves) gg.play(m);
                g.cur = gg.cur;
            }
            r.set_position(g);
            r.label_position();
            have_pos = true;
            break;
        }
        case 1:
        {
            if (ref::legal_moves(r.cur).empty()) break;  // a GUI does not ask for a move in a finished game
            bool sendStop;
            std::string c = go_command(t, r, sendStop);
            if (!r.go(c, sendStop)) return false;
            st.cls["c10:go"]++;
            break;
        }
        case 2:
        {
            // continue the game with `moves`
            std::vector<ref::Move> ms = ref::legal_moves(r.cur);
            int n = 1 + int(t.choose(6));
            std::string c = "moves";
            for (int k = 0; k < n && !ms.empty(); ++k)
            {
                const ref::Move& m = ms[t.choose(uint32_t(ms.size()))];
                ref::Pos nx = ref::make(r.cur, m);
                if (nx.half > 150) break;
                c += " " + m.uci();
                r.cur = nx;
                ++r.plies;
                ref::legal_moves(r.cur, ms);
            }
            if (c != "moves") r.send(c);
            break;
        }
        case 3: r.send("perft " + std::to_string(t.choose(3))); break;
        case 4: r.send("printboard"); break;
        case 5: r.send("hash"); break;
        case 6: r.send("staticeval"); st.cls["c10:staticeval"]++; break;
        case 7: r.send("uci"); r.send("isready"); break;
        case 8:
        {
            std::string p = write_book(t, r);
            r.send("setoption name Polyglot Book value " + p);
            r.send(std::string("setoption name Polyglot Sample value ") + (t.flag() ? "random" : "best"));
            if (!r.sync()) return false;
            if (!recording()) unlink(p.c_str());
            st.cls["c10:book_loaded"]++;
            break;
        }
        default: r.send("ucinewgame"); have_pos = false; break;
        }
    }
    return r.sync();
}

}  // namespace sess
