// C10 (exit half, prop "C10exit") — a session may end (`quit`, or end of input) while a search is running.  The real main() is
//     Uci uci; uci.loop(); return 0;
// so when loop() returns the Uci object (position, evaluator, transposition table, the Search itself) is destroyed.  If the
// search thread is still inside the search at that moment it goes on using freed memory.  Whether that happens in the real
// executable depends on timing, so this harness owns the schedule: it runs exactly main()'s three steps on a thread of its
// own, parks the search thread at a generated schedule point (hook callback), ends the session, and releases the search
// thread only once loop() has returned and the object is gone (or, when loop() waits for the search, after a short grace
// period).  AddressSanitizer is the oracle; the explicit check below only names the situation when the sanitizer is silent.
#include "bridge.h"
#include "registry.h"
#include "ucirig.h"
#include "verif_hooks.h"

#include <atomic>
#include <iostream>
#include <thread>

using namespace engine;

namespace
{
struct ExitSched
{
    std::atomic<uint64_t> visits{0};
    std::atomic<int> park_point{-1};
    std::atomic<uint64_t> park_visit{0};
    std::atomic<bool> armed{false};
    std::atomic<bool> parked{false};
    std::atomic<bool> release{false};
    std::atomic<bool> passed_release{false};
};
ExitSched& xs()
{
    static ExitSched s;
    return s;
}

void exit_cb(int point, Search*)
{
    ExitSched& S = xs();
    uint64_t v = 0;
    if (point == verif::NODE || point == verif::QNODE) v = S.visits.fetch_add(1, std::memory_order_relaxed) + 1;
    if (!S.armed.load(std::memory_order_acquire)) return;
    int pp = S.park_point.load();
    bool hit = pp == verif::NODE ? ((point == verif::NODE || point == verif::QNODE) && v == S.park_visit.load()) : point == pp;
    if (!hit) return;
    S.armed.store(false);
    S.parked.store(true, std::memory_order_release);
    while (!S.release.load(std::memory_order_acquire)) std::this_thread::sleep_for(std::chrono::microseconds(50));
    S.passed_release.store(true, std::memory_order_release);
}

const char* pname(int p)
{
    switch (p)
    {
    case verif::THREAD_START: return "thread_start";
    case verif::GO_ENTRY: return "go_entry";
    case verif::GO_AFTER_INIT: return "go_after_init";
    case verif::GO_AFTER_RESET: return "go_after_reset";
    case verif::NODE: return "node_visit";
    case verif::ITER_END: return "iteration_end";
    default: return "before_bestmove";
    }
}

bool wait_for(const std::atomic<bool>& f, int ms)
{
    auto deadline = std::chrono::steady_clock::now() + std::chrono::milliseconds(ms);
    while (!f.load(std::memory_order_acquire))
    {
        if (std::chrono::steady_clock::now() > deadline) return false;
        std::this_thread::sleep_for(std::chrono::microseconds(200));
    }
    return true;
}

bool prop_C10exit(Tape& t, Report& rep)
{
    br::init_engine();
    ExitSched& S = xs();
    gen::Root root = gen::gen_root(t, &rep, 30);
    if (ref::legal_moves(root.cur).empty()) return true;
    static const int POINTS[] = {verif::NODE, verif::NODE, verif::THREAD_START, verif::GO_ENTRY, verif::GO_AFTER_INIT, verif::GO_AFTER_RESET, verif::ITER_END, verif::BEFORE_BESTMOVE};
    int point = POINTS[t.choose(8)];
    uint64_t visit = 1 + (t.flag() ? t.choose(30) : t.choose(3000));
    int ending = int(t.choose(3));  // quit / end of input / stop + quit back to back
    std::string go = point == verif::BEFORE_BESTMOVE || point == verif::ITER_END ? "go depth " + std::to_string(1 + t.choose(2)) : (t.flag() ? std::string("go infinite") : "go depth " + std::to_string(20 + t.choose(20)));
    static const char* ENDING[] = {"quit", "<end of input>", "stop ; quit"};
    std::string desc = "position fen " + ref::to_fen(root.cur) + " ; " + go + " ; [search thread parked at " + pname(point) + (point == verif::NODE ? " #" + std::to_string(visit) : "") + "] ; " + ENDING[ending];
    rep.decoded = desc;

    auto* in = new rigns::InBuf();
    auto* out = new rigns::OutBuf();
    std::streambuf* oldin = std::cin.rdbuf(in);
    std::streambuf* oldout = std::cout.rdbuf(out);
    std::cin.clear();
    S.visits = 0;
    S.park_point = point;
    S.park_visit = visit;
    S.parked = false;
    S.release = false;
    S.passed_release = false;
    verif::virtual_clock = false;
    verif::callback = &exit_cb;
    S.armed.store(true, std::memory_order_release);
    std::atomic<bool> main_done{false};
    // exactly what engine/main.cpp does after the table initialisation
    std::thread mainThread([&] {
        {
            scrub::scrub_stack();
            auto uci = std::make_unique<Uci>();
            uci->loop();
        }
        main_done.store(true, std::memory_order_release);
    });
    // a fresh engine object per session: commands that arrive before the first `position` / `go` of a process
    static const char* EARLY[] = {"stop", "ponderhit", "isready", "uci", "ucinewgame", "printboard", "hash", "perft 1", "staticeval", "moves e2e4", "setoption name Polyglot Sample value best", "stop"};
    std::string early;
    int nearly = t.chance(1, 2) ? int(t.choose(4)) : 0;
    bool moved = false;
    for (int i = 0; i < nearly; ++i)
    {
        int e = int(t.choose(12));
        if (e == 9 && moved) e = 0;  // e2e4 is legal once (a ucinewgame in between would make it legal again; not needed)
        moved |= e == 9;
        early += std::string(EARLY[e]) + "\n";
    }
    if (nearly)
    {
        rep.cls("c10exit:commands_before_the_first_go");
        desc = "[fresh engine] " + early + desc;
        for (auto& ch : desc)
            if (ch == '\n') ch = ';';
        rep.decoded = desc;
    }
    in->push(early + "position fen " + ref::to_fen(root.cur) + "\n" + go + "\n");
    bool parked = wait_for(S.parked, 20000);
    rep.eval();
    rep.cls(std::string("c10exit:park_") + pname(point));
    rep.cls(std::string("c10exit:ending_") + (ending == 0 ? "quit" : ending == 1 ? "eof" : "stop_quit"));
    if (!parked) rep.cls("c10exit:search_ended_before_the_park_point");
    if (ending == 0) in->push("quit\n");
    else if (ending == 1) in->close();
    else in->push("stop\nquit\n");
    bool ok = true;
    if (parked)
    {
        // grace period: a loop() that does not wait for the search returns at once
        bool returned = wait_for(main_done, 400);
        S.armed = false;
        S.release.store(true, std::memory_order_release);
        if (returned)
        {
            rep.cls("c10exit:loop_returned_while_search_thread_parked");
            // the search thread now runs on with the Uci object destroyed: the sanitizer reports the first use of freed memory
            wait_for(S.passed_release, 2000);
            std::this_thread::sleep_for(std::chrono::milliseconds(300));
            ok = rep.fail("exit:search_thread_outlives_uci",
                          "Uci::loop() returned and the Uci object was destroyed (as in main()) while the search thread was still inside the search (parked at " + std::string(pname(point)) +
                              "); it then continues on freed memory\n " + desc);
        }
        else
        {
            rep.cls("c10exit:loop_waited_for_the_search_thread");
            rep.nontriv(fnv1a(desc));
            rep.sample("c10exit", desc, 3);
        }
    }
    S.armed = false;
    S.release.store(true, std::memory_order_release);
    if (!wait_for(main_done, 60000))
    {
        // loop() never came back (a search nobody stops): not a memory-safety statement; leave the thread behind
        rep.cls("c10exit:inconclusive_loop_did_not_return");
        mainThread.detach();
    }
    else
        mainThread.join();
    verif::callback = nullptr;
    std::cin.rdbuf(oldin);
    std::cout.rdbuf(oldout);
    std::cin.clear();
    if (main_done.load())
    {
        // (buffers are leaked on purpose when a thread may still hold them)
        if (ok)
        {
            delete in;
            delete out;
        }
    }
    return ok;
}

}  // namespace

REGISTER_PROP("C10exit", prop_C10exit, nullptr);
