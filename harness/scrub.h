// Uninitialised memory made adversarial and deterministic.  Heap blocks are filled with 0xbe by the ASan allocator and
// named locals with 0xAA by -ftrivial-auto-var-init=pattern, but temporaries and the callee frames of a new case inherit
// whatever the previous code left on the stack (often harmless zeros or ones).  scrub_stack() overwrites the region below
// the caller's frame with 0xAA, so that a bool/enum read from an uninitialised temporary is an invalid value for UBSan and
// an uninitialised integer or pointer is a large, visible one.
#pragma once
#include <cstddef>

namespace scrub
{
__attribute__((noinline)) inline void scrub_stack()
{
    constexpr size_t N = 192 * 1024;
    volatile unsigned char buf[N];
    for (size_t i = 0; i < N; ++i) buf[i] = 0xAA;
}
}  // namespace scrub
