// In-process search driver: runs engine::Search::go() synchronously with stdout captured, a harness-owned
// node-visit callback (deterministic stop after exactly k visits, virtual clock, visit cap) and parses the output.
#pragma once
#include "bridge.h"
#include "registry.h"
#include "search.h"
#include "transposition_table.h"
#include "verif_hooks.h"

#include <iostream>
#include <memory>
#include <sstream>

namespace sl
{
struct InfoLine
{
    int depth = 0;
    bool mate = false;
    long long score = 0;  // cp or mate distance as printed
    std::vector<std::string> pv;
    std::string raw;
};
struct Out
{
    std::vector<InfoLine> infos;
    std::vector<std::string> bestmoves;
    std::vector<int> order;  // 0 info, 1 bestmove, in output order
    std::string raw;
    uint64_t visits = 0;
    bool capped = false;        // the harness had to stop the search at the visit cap
    bool stop_delivered = false;
    uint64_t visits_at_stop = 0;
    int iterations_completed_at_stop = 0;
    int max_root_searches_in_one_iteration = 0;
    bool livelock = false;      // one iteration re-searched the root more than ROUND_LIMIT times: it does not converge
};

// An aspiration loop that converges widens its window every round and is done after a few dozen re-searches at the very
// most; hundreds of re-searches of ONE iteration mean the loop alternates between fail-high and fail-low without end.
constexpr int ROUND_LIMIT = 300;

struct Plan
{
    uint64_t stop_at = 0;       // deliver stop() when the visit counter reaches this value (0 = never)
    uint64_t cap = 400000;      // safety: deliver stop() at this many visits and mark the run as capped
    bool virtual_clock = true;
    uint64_t nodes_per_ms = 1000;
};

struct State
{
    uint64_t visits = 0;
    Plan plan;
    bool capped = false, stop_delivered = false;
    uint64_t visits_at_stop = 0;
    int iters_done = 0, iters_at_stop = 0;
    int rounds = 0, max_rounds = 0;
    bool livelock = false;
};
inline State& state()
{
    static State s;
    return s;
}

inline void callback(int point, engine::Search* s)
{
    State& st = state();
    if (point == engine::verif::ITER_END) ++st.iters_done;
    if (point == engine::verif::ITER_BEGIN) st.rounds = 0;
    if (point == engine::verif::ASPIRATION_ROUND)
    {
        st.max_rounds = std::max(st.max_rounds, ++st.rounds);
        if (st.rounds == ROUND_LIMIT)
        {
            st.livelock = true;
            s->stop();
        }
    }
    if (point != engine::verif::NODE && point != engine::verif::QNODE) return;
    ++st.visits;
    if (st.plan.virtual_clock) engine::verif::virtual_elapsed_ms = int64_t(st.visits / st.plan.nodes_per_ms);
    if (st.plan.stop_at && st.visits == st.plan.stop_at)
    {
        st.stop_delivered = true;
        st.visits_at_stop = st.visits;
        st.iters_at_stop = st.iters_done;
        s->stop();
    }
    if (st.visits == st.plan.cap)
    {
        st.capped = true;
        s->stop();
    }
    // keep insisting if the engine ignores the stop (a lost stop must not hang the harness)
    if (st.visits > st.plan.cap && (st.visits - st.plan.cap) % 50000 == 0) s->stop();
}

inline Out parse(const std::string& raw)
{
    Out o;
    o.raw = raw;
    std::istringstream is(raw);
    std::string line;
    while (std::getline(is, line))
    {
        std::istringstream ls(line);
        std::string tok;
        ls >> tok;
        if (tok == "bestmove")
        {
            std::string m;
            ls >> m;
            o.bestmoves.push_back(m);
            o.order.push_back(1);
        }
        else if (tok == "info")
        {
            InfoLine il;
            il.raw = line;
            while (ls >> tok)
            {
                if (tok == "depth") ls >> il.depth;
                else if (tok == "score")
                {
                    std::string kind;
                    ls >> kind >> il.score;
                    il.mate = kind == "mate";
                }
                else if (tok == "pv")
                {
                    std::string m;
                    while (ls >> m) il.pv.push_back(m);
                }
            }
            o.infos.push_back(il);
            o.order.push_back(0);
        }
    }
    return o;
}

// One evaluator per process, reset with clear() at the start of every session (an 8 MB table: re-allocating it per case
// costs page faults under ASan); the transposition table is small (hook H6) and is created per session.
struct Session
{
    engine::PositionScorer* scorer;
    std::unique_ptr<engine::tt::TTable> ttable;
    Session() : ttable(new engine::tt::TTable())
    {
        static engine::PositionScorer* shared = new engine::PositionScorer();
        scorer = shared;
        scorer->clear();
    }
};

inline Out run(Session& S, const engine::Position& pos, const engine::Limits& lim, const Plan& plan)
{
    State& st = state();
    st = State();
    st.plan = plan;
    engine::verif::virtual_clock = plan.virtual_clock;
    engine::verif::virtual_elapsed_ms = 0;
    engine::verif::callback = &callback;
    std::ostringstream cap;
    std::streambuf* old = std::cout.rdbuf(cap.rdbuf());
    {
        // the Search object is ~2.8 MB of inline arrays: construct it in a static buffer instead of a fresh mapping per go
        alignas(64) static char buf[sizeof(engine::Search)];
        engine::Search* search = new (buf) engine::Search(pos, lim, *S.scorer, *S.ttable);
        search->go();
        search->~Search();
    }
    std::cout.rdbuf(old);
    engine::verif::callback = nullptr;
    Out o = parse(cap.str());
    o.visits = st.visits;
    o.capped = st.capped;
    o.stop_delivered = st.stop_delivered;
    o.visits_at_stop = st.visits_at_stop;
    o.iterations_completed_at_stop = st.iters_at_stop;
    o.max_root_searches_in_one_iteration = st.max_rounds;
    o.livelock = st.livelock;
    return o;
}

inline std::string limits_str(const engine::Limits& l, const engine::Position& pos)
{
    std::string s = "go";
    if (l.infinite) s += " infinite";
    if (l.depth) s += " depth " + std::to_string(l.depth);
    if (l.nodes) s += " nodes " + std::to_string(l.nodes);
    if (l.movetime) s += " movetime " + std::to_string(l.movetime);
    if (l.timeleft[0] || l.timeleft[1])
        s += " wtime " + std::to_string(l.timeleft[0]) + " btime " + std::to_string(l.timeleft[1]) + " winc " + std::to_string(l.timeinc[0]) +
             " binc " + std::to_string(l.timeinc[1]);
    if (l.movestogo) s += " movestogo " + std::to_string(l.movestogo);
    if (l.searchmovesnum)
    {
        s += " searchmoves";
        for (int i = 0; i < l.searchmovesnum; ++i) s += " " + pos.uci(l.searchmoves[i]);
    }
    return s;
}

// replay a pv on the oracle; returns "" if every move is legal in turn, else a description
inline std::string pv_illegal(const ref::Pos& root, const std::vector<std::string>& pv)
{
    ref::Pos p = root;
    for (size_t i = 0; i < pv.size(); ++i)
    {
        std::vector<ref::Move> ms = ref::legal_moves(p);
        auto it = std::find_if(ms.begin(), ms.end(), [&](const ref::Move& m) { return m.uci() == pv[i]; });
        if (it == ms.end()) return "pv move #" + std::to_string(i + 1) + " '" + pv[i] + "' is not legal in " + ref::to_fen(p);
        p = ref::make(p, *it);
    }
    return "";
}

}  // namespace sl
