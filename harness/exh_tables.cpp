// C11 (attack tables exact: exhaustive over square x relevant-occupancy subsets + random occupancies),
// C12 (KPK knowledge equals the game-theoretic truth: exhaustive, retrograde solver),
// C20 (time allocation bounds and monotonicity)
#include "../ref/refsolve.h"
#include "bridge.h"
#include "registry.h"
#include "score.h"
#include "time_manager.h"

using namespace engine;

bool c20_uci_budget(Tape& t, Report& rep);  // pbt_search.cpp: what the search does with the clock

namespace
{
// ------------------------------------------------------------------------------------------------
// C11
// ------------------------------------------------------------------------------------------------
uint64_t ray_walk(int sq, uint64_t occ, bool diag, bool orth)
{
    uint64_t r = 0;
    for (int d = 0; d < 8; ++d)
    {
        bool isDiag = ref::DIR_DF[d] != 0 && ref::DIR_DR[d] != 0;
        if (isDiag ? !diag : !orth) continue;
        int f = ref::FL(sq) + ref::DIR_DF[d], rk = ref::RK(sq) + ref::DIR_DR[d];
        while (ref::on_board(f, rk))
        {
            int s = ref::SQ(f, rk);
            r |= 1ULL << s;
            if (occ & (1ULL << s)) break;
            f += ref::DIR_DF[d];
            rk += ref::DIR_DR[d];
        }
    }
    return r;
}

uint64_t relevant_mask(int sq, bool diag)
{
    // squares on the rays excluding the last square of each ray (the board edge in that direction)
    uint64_t r = 0;
    for (int d = 0; d < 8; ++d)
    {
        bool isDiag = ref::DIR_DF[d] != 0 && ref::DIR_DR[d] != 0;
        if (isDiag != diag) continue;
        int f = ref::FL(sq) + ref::DIR_DF[d], rk = ref::RK(sq) + ref::DIR_DR[d];
        while (ref::on_board(f + ref::DIR_DF[d], rk + ref::DIR_DR[d]))
        {
            r |= 1ULL << ref::SQ(f, rk);
            f += ref::DIR_DF[d];
            rk += ref::DIR_DR[d];
        }
    }
    return r;
}

std::string hex(uint64_t v)
{
    char b[32];
    snprintf(b, sizeof b, "0x%016llx", (unsigned long long)v);
    return b;
}

bool c11_slider(int sq, uint64_t occ, Report& rep)
{
    uint64_t b = slider_attack<BISHOP>(Square(sq), occ), r = slider_attack<ROOK>(Square(sq), occ), q = slider_attack<QUEEN>(Square(sq), occ);
    uint64_t wb = ray_walk(sq, occ, true, false), wr = ray_walk(sq, occ, false, true);
    rep.eval(3);
    if (b != wb) return rep.fail("attack:bishop", "bishop attacks from " + ref::sqname(sq) + " occ=" + hex(occ) + " engine=" + hex(b) + " raywalk=" + hex(wb));
    if (r != wr) return rep.fail("attack:rook", "rook attacks from " + ref::sqname(sq) + " occ=" + hex(occ) + " engine=" + hex(r) + " raywalk=" + hex(wr));
    if (q != (wb | wr)) return rep.fail("attack:queen", "queen attacks from " + ref::sqname(sq) + " occ=" + hex(occ));
    return true;
}

bool c11_exhaustive(Report& rep)
{
    uint64_t entries = 0;
    for (int sq = 0; sq < 64; ++sq)
        for (int diag = 0; diag < 2; ++diag)
        {
            uint64_t mask = relevant_mask(sq, diag);
            // enumerate all subsets of mask (carry-rippler)
            uint64_t sub = 0;
            do
            {
                if (!c11_slider(sq, sub, rep)) return false;
                // the same subset with every bit outside the mask set must give the same answer on the masked part
                if (!c11_slider(sq, sub | ~mask, rep)) return false;
                ++entries;
                sub = (sub - mask) & mask;
            } while (sub);
        }
    rep.cls("c11:slider_entries_enumerated", entries);
    // leapers and pawns
    for (int sq = 0; sq < 64; ++sq)
    {
        uint64_t kn = 0, kg = 0;
        for (int i = 0; i < 8; ++i)
        {
            if (ref::on_board(ref::FL(sq) + ref::KN_DF[i], ref::RK(sq) + ref::KN_DR[i])) kn |= 1ULL << ref::SQ(ref::FL(sq) + ref::KN_DF[i], ref::RK(sq) + ref::KN_DR[i]);
            if (ref::on_board(ref::FL(sq) + ref::DIR_DF[i], ref::RK(sq) + ref::DIR_DR[i])) kg |= 1ULL << ref::SQ(ref::FL(sq) + ref::DIR_DF[i], ref::RK(sq) + ref::DIR_DR[i]);
        }
        rep.eval(5);
        if (KNIGHT_MASK[sq] != kn) return rep.fail("attack:knight", "KNIGHT_MASK[" + ref::sqname(sq) + "]=" + hex(KNIGHT_MASK[sq]) + " expected " + hex(kn));
        if (KING_MASK[sq] != kg) return rep.fail("attack:king", "KING_MASK[" + ref::sqname(sq) + "]=" + hex(KING_MASK[sq]) + " expected " + hex(kg));
        if (king_attacks(1ULL << sq) != kg) return rep.fail("attack:king", "king_attacks(" + ref::sqname(sq) + ")");
        for (int w = 0; w < 2; ++w)
        {
            uint64_t pa = 0;
            int r = ref::RK(sq) + (w ? -1 : 1);
            for (int df = -1; df <= 1; df += 2)
                if (ref::on_board(ref::FL(sq) + df, r)) pa |= 1ULL << ref::SQ(ref::FL(sq) + df, r);
            uint64_t got = pawn_attacks(1ULL << sq, w ? BLACK : WHITE);
            if (got != pa) return rep.fail("attack:pawn", std::string("pawn_attacks(") + ref::sqname(sq) + "," + (w ? "black" : "white") + ")=" + hex(got) + " expected " + hex(pa));
        }
        // empty-board pseudo attacks
        if (pseudoattacks<BISHOP>(Square(sq)) != ray_walk(sq, 0, true, false) || pseudoattacks<ROOK>(Square(sq)) != ray_walk(sq, 0, false, true) ||
            pseudoattacks<QUEEN>(Square(sq)) != ray_walk(sq, 0, true, true))
            return rep.fail("attack:pseudo", "pseudoattacks from " + ref::sqname(sq));
    }
    // lines (inclusive segment when aligned) and full lines
    for (int a = 0; a < 64; ++a)
        for (int b = 0; b < 64; ++b)
        {
            int df = ref::FL(b) - ref::FL(a), dr = ref::RK(b) - ref::RK(a);
            bool aligned = a == b || df == 0 || dr == 0 || std::abs(df) == std::abs(dr);
            uint64_t seg = 0, full = 0;
            if (aligned)
            {
                int sf = (df > 0) - (df < 0), sr = (dr > 0) - (dr < 0);
                int f = ref::FL(a), r = ref::RK(a);
                seg |= 1ULL << a;
                while (f != ref::FL(b) || r != ref::RK(b))
                {
                    f += sf;
                    r += sr;
                    seg |= 1ULL << ref::SQ(f, r);
                }
                if (a != b)
                {
                    for (int dir = -1; dir <= 1; dir += 2)
                    {
                        int ff = ref::FL(a), rr = ref::RK(a);
                        while (ref::on_board(ff, rr))
                        {
                            full |= 1ULL << ref::SQ(ff, rr);
                            ff += dir * sf;
                            rr += dir * sr;
                        }
                    }
                }
            }
            rep.eval(2);
            if (LINES[a][b] != seg) return rep.fail("attack:lines", "LINES[" + ref::sqname(a) + "][" + ref::sqname(b) + "]=" + hex(LINES[a][b]) + " expected " + hex(seg));
            if (FULL_LINES[a][b] != full) return rep.fail("attack:full_lines", "FULL_LINES[" + ref::sqname(a) + "][" + ref::sqname(b) + "]=" + hex(FULL_LINES[a][b]) + " expected " + hex(full));
        }
    rep.cls("c11:leaper_pawn_line_tables_enumerated");
    return true;
}

bool prop_C11(Tape& t, Report& rep)
{
    br::init_engine();
    static bool done = false;
    if (!done)
    {
        done = true;
        if (!c11_exhaustive(rep)) return false;
        rep.sample("c11:exhaustive", "all 64 squares x all subsets of the relevant bishop/rook blocker masks (107,648 entries, each also OR-ed with all bits outside the mask); KNIGHT_MASK, KING_MASK, pawn_attacks (both colours), pseudoattacks, LINES and FULL_LINES for all 64(x64) entries");
    }
    // The tables are global mutable arrays: they must still be exact after the engine has been used.  Every case runs a small
    // workload (evaluation, move generation, check tests, perft, SAN) on a generated position, and every 64th case the complete
    // enumeration is repeated.
    {
        static PositionScorer* scorer = new PositionScorer();
        static uint64_t ncase = 0;
        gen::Root r = gen::gen_root(t, nullptr, 40);
        Position pos = br::from_fen(r.cur);
        if (!ref::insufficient_material(r.cur)) scorer->score(pos);
        br::EMoves em = br::engine_moves(pos);
        for (size_t k = 0; k < em.raw.size() && k < 8; ++k)
        {
            pos.move_gives_check(em.raw[k]);
            pos.san(em.raw[k]);
        }
        pos.is_in_check(pos.color());
        engine::perft(pos, 2);
        rep.cls("c11:workload_positions");
        if ((++ncase & 63) == 0)
        {
            Report scratch;  // counts of the repeated enumeration are not added to the evidence again
            if (!c11_exhaustive(scratch))
                return rep.fail(scratch.failure_sig + ":after_engine_activity", scratch.failure + "\n (the table was exact at start-up and is wrong after the engine evaluated / generated moves for " +
                                                                                std::to_string(ncase) + " positions; last: " + ref::to_fen(r.cur) + ")");
            rep.cls("c11:re_enumerations_after_engine_activity");
        }
    }
    // random full 64-bit occupancies (dense, medium, sparse) and random pawn sets
    for (int i = 0; i < 64; ++i)
    {
        uint64_t a = (uint64_t(t.next()) << 32) | t.next(), b = (uint64_t(t.next()) << 32) | t.next();
        uint64_t occ = i % 3 == 0 ? a : (i % 3 == 1 ? (a & b) : (a | b));
        int sq = int(t.choose(64));
        if (!c11_slider(sq, occ, rep)) return false;
        rep.nontriv(mix64(occ ^ (uint64_t(sq) << 58)));
        if (i == 0) rep.sample("c11:random_occupancy", ref::sqname(sq) + " occ=" + hex(occ), 3);
        // pawn attack sets of arbitrary pawn bitboards
        uint64_t pawns = a & b;
        for (int w = 0; w < 2; ++w)
        {
            uint64_t want = 0;
            for (int s = 0; s < 64; ++s)
                if (pawns & (1ULL << s))
                {
                    int r = ref::RK(s) + (w ? -1 : 1);
                    for (int df = -1; df <= 1; df += 2)
                        if (ref::on_board(ref::FL(s) + df, r)) want |= 1ULL << ref::SQ(ref::FL(s) + df, r);
                }
            rep.eval();
            if (pawn_attacks(pawns, w ? BLACK : WHITE) != want) return rep.fail("attack:pawn_set", "pawn_attacks(set " + hex(pawns) + ")");
        }
    }
    return true;
}

// ------------------------------------------------------------------------------------------------
// C12
// ------------------------------------------------------------------------------------------------
int flipv(int s) { return ref::SQ(ref::FL(s), 7 - ref::RK(s)); }

bool prop_C12(Tape&, Report& rep)
{
    br::init_engine();
    static ref::KpkOracle* K = nullptr;
    if (!K)
    {
        K = new ref::KpkOracle();
        K->init();
    }
    int shard = int(opt_int("shard", 0)), nshards = int(opt_int("nshards", 1));
    PositionScorer scorer;
    uint64_t total = 0, wins = 0, interleaved = 0;
    std::map<std::string, uint64_t> perFile;
    std::string firstBit, firstEval;
    uint64_t badBit = 0, badEval = 0;
    // enumerate in white-pawn coordinates; black-pawn positions are the colour mirror (ranks flipped, colours and side swapped)
    for (int pawn = 8; pawn < 56; ++pawn)
    {
        if ((pawn % nshards) != shard) continue;
        for (int wk = 0; wk < 64; ++wk)
            for (int bk = 0; bk < 64; ++bk)
                for (int btm = 0; btm < 2; ++btm)
                {
                    if (!K->legal(btm, wk, bk, pawn)) continue;
                    bool truth = K->white_wins(btm, wk, bk, pawn);
                    for (int pawnBlack = 0; pawnBlack < 2; ++pawnBlack)
                    {
                        // concrete position
                        ref::Pos p;
                        int sk = pawnBlack ? flipv(wk) : wk, wkk = pawnBlack ? flipv(bk) : bk, ps = pawnBlack ? flipv(pawn) : pawn;
                        p.b[sk] = pawnBlack ? 'k' : 'K';
                        p.b[wkk] = pawnBlack ? 'K' : 'k';
                        p.b[ps] = pawnBlack ? 'p' : 'P';
                        bool strongToMove = !btm;
                        p.wtm = pawnBlack ? !strongToMove : strongToMove;
                        ++total;
                        wins += truth;
                        rep.eval();
                        std::string cls = std::string("c12:") + (pawnBlack ? "black_pawn" : "white_pawn") + (strongToMove ? "_strong_to_move" : "_weak_to_move") + "_file_" + char('a' + ref::FL(ps));
                        perFile[cls]++;
                        // (1) bitbase through normalize + check
                        Color side = p.wtm ? WHITE : BLACK;
                        Square a = Square(sk), b = Square(ps), c = Square(wkk);
                        bitbase::normalize(pawnBlack ? BLACK : WHITE, side, a, b, c);
                        bool bit = bitbase::check(side, a, b, c);
                        // (2) the evaluator's verdict; before some of the positions another endgame is evaluated (the position
                        //     with the pawn promoted, or a bare-kings position), as a search from a KPK root does all the time
                        if ((total % 7) == 3 || (total % 11) == 5)
                        {
                            ref::Pos other = p;
                            other.b[ps] = (total % 7) == 3 ? (pawnBlack ? 'q' : 'Q') : (pawnBlack ? 'r' : 'R');
                            other.wtm = !pawnBlack ? false : true;  // the weak side to move (never leaves the weak king capturable)
                            if (ref::domain_violation(other).empty())
                            {
                                Position op(ref::to_fen(other));
                                scorer.score(op);
                                ++interleaved;
                            }
                        }
                        Position pos(ref::to_fen(p));
                        Value v = scorer.score(pos);
                        Value vs = (pos.color() == (pawnBlack ? BLACK : WHITE)) ? v : -v;
                        bool evalWin = vs >= VALUE_KNOWN_WIN;
                        if (bit != truth)
                        {
                            if (!badBit++) firstBit = ref::to_fen(p) + " bitbase says " + (bit ? "win" : "draw") + ", truth " + (truth ? "win" : "draw");
                            rep.cls("c12:bitbase_mismatch");
                        }
                        if (evalWin != truth)
                        {
                            if (!badEval++) firstEval = ref::to_fen(p) + " evaluation " + std::to_string(vs) + " (" + (evalWin ? "win" : "draw") + "), truth " + (truth ? "win" : "draw");
                            rep.cls("c12:evaluation_mismatch");
                        }
                        if ((total & 0x3fff) == 1) rep.sample(truth ? "c12:won" : "c12:drawn", ref::to_fen(p), 2);
                        rep.nontriv((uint64_t(pawnBlack) << 40) | (uint64_t(btm) << 32) | (uint64_t(wk) << 16) | (uint64_t(bk) << 8) | uint64_t(pawn));
                    }
                }
    }
    for (auto& kv : perFile) rep.cls(kv.first, kv.second);
    rep.cls("c12:positions", total);
    rep.cls("c12:won_for_pawn_side", wins);
    rep.cls("c12:evaluations_preceded_by_another_endgame", interleaved);
    if (badBit || badEval)
    {
        std::string sig = badBit ? "kpk:bitbase" : "kpk:evaluation";
        return rep.fail(sig, std::to_string(badBit) + " bitbase and " + std::to_string(badEval) + " evaluation misclassifications among " +
                                 std::to_string(total) + " positions of this shard\n first bitbase mismatch: " + firstBit +
                                 "\n first evaluation mismatch: " + firstEval);
    }
    return true;
}

// ------------------------------------------------------------------------------------------------
// C20
// ------------------------------------------------------------------------------------------------
int pick_boundary(Tape& t, int hi, std::initializer_list<int> specials)
{
    if (t.chance(1, 3))
    {
        std::vector<int> v(specials);
        return v[t.choose(uint32_t(v.size()))];
    }
    switch (t.choose(4))
    {
    case 0: return int(t.choose(uint32_t(std::min(hi, 100)) + 1));
    case 1: return int(t.choose(uint32_t(std::min(hi, 10000)) + 1));
    case 2: return int(t.choose(uint32_t(std::min(hi, 1000000)) + 1));
    default: return int(t.choose(uint32_t(hi) + 1));
    }
}

bool prop_C20(Tape& t, Report& rep)
{
    if (t.chance(1, 400)) return c20_uci_budget(t, rep);
    for (int i = 0; i < 16; ++i)
    {
        Limits L;
        Color side = t.flag() ? BLACK : WHITE;
        int time = pick_boundary(t, 86400000, {0, 1, 2, 9, 10, 11, 99, 100, 101, 1000, 59999, 60000, 3600000, 86400000});
        int inc = pick_boundary(t, 600000, {0, 1, 10, 1000, 600000});
        int mtg = pick_boundary(t, 200, {0, 1, 2, 3, 49, 50, 51, 200});
        int ply = pick_boundary(t, 1000, {0, 1, 2, 63, 64, 65, 128, 129, 999, 1000});
        L.timeleft[side] = time;
        L.timeinc[side] = inc;
        // the other side's clock must not matter
        L.timeleft[!side] = int(t.choose(86400001));
        L.timeinc[!side] = int(t.choose(600001));
        L.movestogo = mtg;
        int64_t a = TimeManager::calculateTime(L, side, ply);
        rep.eval();
        std::string desc = "time=" + std::to_string(time) + " inc=" + std::to_string(inc) + " movestogo=" + std::to_string(mtg) + " ply=" +
                           std::to_string(ply) + " side=" + (side == WHITE ? "w" : "b");
        rep.decoded = desc;
        rep.nontriv(mix64((uint64_t(time) << 32) ^ (uint64_t(inc) << 12) ^ (uint64_t(mtg) << 52) ^ uint64_t(ply) ^ (uint64_t(side) << 63)));
        if (time <= 11) rep.cls("c20:tiny_time");
        if (mtg == 1) rep.cls("c20:movestogo_1");
        if (inc > time) rep.cls("c20:inc_gt_time");
        if (i == 0) rep.sample("c20:case", desc + " -> " + std::to_string(a), 3);
        if (a < 0) return rep.fail("time:negative", "allotted time " + std::to_string(a) + " < 0 for " + desc);
        if (10 * a > 7 * int64_t(time)) return rep.fail("time:exceeds_70_percent", "allotted time " + std::to_string(a) + " exceeds 70% of remaining time for " + desc);
        // monotonic in the remaining time
        int delta = t.chance(1, 2) ? 1 : (t.chance(1, 2) ? 10 : int(t.choose(3600000)) + 1);
        if (int64_t(time) + delta <= 86400000)
        {
            Limits M = L;
            M.timeleft[side] = time + delta;
            int64_t b = TimeManager::calculateTime(M, side, ply);
            rep.eval();
            rep.cls(delta == 1 ? "c20:pair_delta_1" : delta == 10 ? "c20:pair_delta_10" : "c20:pair_delta_large");
            if (b < a)
                return rep.fail("time:not_monotonic", "more remaining time gives less thinking time: t(" + std::to_string(time) + ")=" + std::to_string(a) +
                                                          " > t(" + std::to_string(time + delta) + ")=" + std::to_string(b) + " for " + desc);
        }
    }
    return true;
}

}  // namespace

REGISTER_PROP("C11", prop_C11, nullptr);
REGISTER_PROP("C12", prop_C12, nullptr);
REGISTER_PROP("C20", prop_C20, nullptr);
