// C01 — legal move generation is exact (differential against the rules oracle, lock-step tree walk)
#include "bridge.h"
#include <fstream>
#include "ucisession.h"
#include "registry.h"
#include "ucirig.h"

using namespace engine;

namespace
{
struct Ctx
{
    Report& rep;
    uint64_t nodes = 0;
    uint64_t budget = 0;
    std::string fail_sig, fail_msg;
};

std::string c01_special_classes(const ref::Pos& p, const std::vector<ref::Move>& pseudo, const std::vector<ref::Move>& legal,
                                Report& rep)
{
    std::string tags;
    bool inchk = ref::in_check(p, p.wtm);
    auto is_legal = [&](const ref::Move& m) { return std::find(legal.begin(), legal.end(), m) != legal.end(); };
    for (const auto& m : pseudo)
    {
        if (!ref::is_ep(p, m)) continue;
        bool legalEp = is_legal(m);
        // is the capturing pawn pinned? -> some other pseudo-legal move of that pawn is illegal while not in check,
        // or (no other move available) removing the pawn exposes the king
        ref::Pos without = p;
        without.b[m.from] = '.';
        bool pinned = !inchk && ref::in_check(without, p.wtm);
        int k = ref::king_sq(p, p.wtm);
        if (legalEp && pinned)
        {
            rep.cls("c01:ep_legal_by_pinned_capturer");
            tags += " ep_legal_pinned";
        }
        if (!legalEp && !inchk && !pinned && ref::RK(k) == ref::RK(m.from))
        {
            rep.cls("c01:ep_illegal_rank_exposure");
            tags += " ep_rank_exposed";
        }
        if (!legalEp && pinned)
        {
            rep.cls("c01:ep_illegal_pinned_capturer");
            tags += " ep_illegal_pinned";
        }
        if (legalEp && inchk)
        {
            rep.cls("c01:ep_legal_in_check");
            tags += " ep_evasion";
        }
        if (legalEp) rep.cls("c01:ep_legal");
    }
    if (!inchk)
    {
        // castling right present, squares between empty, but castling illegal => path attacked
        int home = p.wtm ? 4 : 60;
        bool ks = p.wtm ? p.cK : p.ck, qs = p.wtm ? p.cQ : p.cq;
        bool ksLegal = is_legal(ref::Move{home, home + 2, 0}), qsLegal = is_legal(ref::Move{home, home - 2, 0});
        if (ks && p.b[home + 1] == '.' && p.b[home + 2] == '.' && !ksLegal)
        {
            rep.cls("c01:castle_path_attacked");
            tags += " castle_path_attacked";
        }
        if (qs && p.b[home - 1] == '.' && p.b[home - 2] == '.' && p.b[home - 3] == '.' && !qsLegal)
        {
            rep.cls("c01:castle_path_attacked");
            tags += " castle_path_attacked";
        }
        if (qs && qsLegal && ref::attacked(p, home - 3, !p.wtm))
        {
            rep.cls("c01:castle_long_b_file_attacked_ok");
            tags += " castle_b_attacked_ok";
        }
        if (ksLegal || qsLegal) rep.cls("c01:castle_legal");
    }
    return tags;
}

// compare move sets at this node and recurse in lock-step
bool cmp(Position& pos, const ref::Pos& rp, int depth, Ctx& c, const std::string& path)
{
    ++c.nodes;
    std::vector<ref::Move> pseudo, legal;
    ref::pseudo_moves(rp, pseudo);
    for (const auto& m : pseudo)
        if (!ref::in_check(ref::make(rp, m), rp.wtm)) legal.push_back(m);
    std::sort(legal.begin(), legal.end());
    std::vector<std::string> want = br::uci_list(legal);

    br::EMoves em = br::engine_moves(pos);
    std::vector<std::string> got = em.uci;
    std::sort(got.begin(), got.end());
    c.rep.eval();

    // classes / non-trivial accounting
    int chk = ref::count_checkers(rp, rp.wtm);
    bool pawn7 = false;
    for (int f = 0; f < 8; ++f)
        if (rp.b[ref::SQ(f, rp.wtm ? 6 : 1)] == (rp.wtm ? 'P' : 'p')) pawn7 = true;
    bool rights = rp.wtm ? (rp.cK || rp.cQ) : (rp.ck || rp.cq);
    bool pinned = chk == 0 && pseudo.size() != legal.size();
    std::string tags = c01_special_classes(rp, pseudo, legal, c.rep);
    if (chk >= 1) c.rep.cls("c01:in_check");
    if (chk >= 2) c.rep.cls("c01:double_check");
    if (pinned) c.rep.cls("c01:pin_or_king_restriction");
    if (rp.ep >= 0) c.rep.cls("c01:ep_square_set");
    if (pawn7) c.rep.cls("c01:pawn_on_7th");
    if (rights) c.rep.cls("c01:castling_right");
    if (legal.size() >= 100) c.rep.cls("c01:ge100_moves");
    if (legal.empty()) c.rep.cls(chk ? "c01:checkmate" : "c01:stalemate");
    bool nontrivial = chk || pinned || rp.ep >= 0 || pawn7 || rights;
    if (nontrivial) c.rep.nontriv(fnv1a(ref::key4(rp)));
    if (!tags.empty()) c.rep.sample("special:" + tags, ref::to_fen(rp));
    else if (chk >= 2) c.rep.sample("double_check", ref::to_fen(rp));
    else if (nontrivial) c.rep.sample("nontrivial", ref::to_fen(rp), 2);

    if (got != want)
    {
        std::vector<std::string> missing, extra, dup;
        std::set_difference(want.begin(), want.end(), got.begin(), got.end(), std::back_inserter(missing));
        std::set_difference(got.begin(), got.end(), want.begin(), want.end(), std::back_inserter(extra));
        for (size_t i = 1; i < got.size(); ++i)
            if (got[i] == got[i - 1]) dup.push_back(got[i]);
        std::string kind = !missing.empty() ? "missing" : (!dup.empty() && extra.size() == dup.size() ? "duplicate" : "illegal");
        c.fail_sig = "movegen:" + kind;
        // refine the signature for the classic pinned-ep case so known findings can be matched narrowly
        if (!missing.empty() && extra.empty())
        {
            bool allEpPinned = true;
            for (auto& ms : missing)
            {
                bool found = false;
                for (auto& m : legal)
                    if (m.uci() == ms && ref::is_ep(rp, m))
                    {
                        ref::Pos without = rp;
                        without.b[m.from] = '.';
                        if (ref::in_check(without, rp.wtm)) found = true;
                    }
                allEpPinned &= found;
            }
            if (allEpPinned) c.fail_sig = "movegen:missing:ep_by_pinned_pawn";
        }
        c.fail_msg = "move set mismatch at fen=" + ref::to_fen(rp) + (path.empty() ? "" : " (reached by" + path + ")") +
                     "\n missing (legal, not generated): " + br::join(missing) + "\n extra (generated, not legal or duplicated): " +
                     br::join(extra) + "\n engine: " + br::join(got) + "\n oracle: " + br::join(want);
        return false;
    }
    if (depth <= 0 || c.nodes >= c.budget) return true;
    for (size_t i = 0; i < em.raw.size(); ++i)
    {
        // oracle move for this engine move
        const std::string& u = em.uci[i];
        auto it = std::find_if(legal.begin(), legal.end(), [&](const ref::Move& m) { return m.uci() == u; });
        MoveInfo mi = pos.do_move(em.raw[i]);
        bool ok = cmp(pos, ref::make(rp, *it), depth - 1, c, path + " " + u);
        pos.undo_move(em.raw[i], mi);
        if (!ok) return false;
        if (c.nodes >= c.budget) break;
    }
    return true;
}

// the UCI `perft` command: per-move lines and the node total against the oracle
bool c01_uci_perft(Tape& t, Report& rep, const gen::Root& root)
{
    if (!ucifmt::fmt(&rep).perft) return true;  // perft's output format is not the one this parser knows (see ucifmt.h)
    rigns::Rig& R = rigns::rig();
    std::vector<ref::Move> legal = ref::legal_moves(root.cur);
    int depth = (legal.size() <= 40 && t.flag()) ? 2 : 1;
    std::string cmd = "position fen " + ref::to_fen(root.start);
    if (!root.moves.empty())
    {
        cmd += " moves";
        for (auto& m : root.moves) cmd += " " + m.uci();
    }
    rep.decoded = cmd + " ; perft " + std::to_string(depth);
    size_t mark = R.out.size();
    R.send(cmd);
    R.send("perft " + std::to_string(depth));
    long li = R.out.wait_line(mark, [](const std::string& l) { return l.rfind("Speed:", 0) == 0; }, 120000);
    rep.eval();
    rep.cls("c01:uci_perft_command");
    if (li < 0) return rep.fail("movegen:uci:no_answer", "perft printed no result\n " + rep.decoded);
    std::map<std::string, uint64_t> got;
    uint64_t total = 0;
    bool dup = false;
    for (auto& l : R.out.snapshot(mark))
    {
        auto c = l.find(": ");
        if (l.rfind("Number of nodes: ", 0) == 0) total = strtoull(l.c_str() + 17, 0, 10);
        else if (c != std::string::npos && c >= 4 && c <= 5 && l.find(' ') == c + 1 && l[0] >= 'a' && l[0] <= 'h' && l[1] >= '1' && l[1] <= '8' &&
                 l[2] >= 'a' && l[2] <= 'h' && l[3] >= '1' && l[3] <= '8')
        {
            std::string mv = l.substr(0, c);
            if (got.count(mv)) dup = true;
            got[mv] = strtoull(l.c_str() + c + 2, 0, 10);
        }
    }
    std::map<std::string, uint64_t> want;
    uint64_t wtotal = 0;
    for (auto& m : legal)
    {
        uint64_t n = depth == 1 ? 1 : ref::perft(ref::make(root.cur, m), depth - 1);
        want[m.uci()] = n;
        wtotal += n;
    }
    if (got != want || total != wtotal || dup)
    {
        std::string g, w;
        for (auto& kv : got) g += " " + kv.first + ":" + std::to_string(kv.second);
        for (auto& kv : want) w += " " + kv.first + ":" + std::to_string(kv.second);
        return rep.fail("movegen:uci_perft", "UCI perft " + std::to_string(depth) + " differs from the rules at " + ref::to_fen(root.cur) + "\n engine (" +
                                                 std::to_string(total) + "):" + g + "\n oracle (" + std::to_string(wtotal) + "):" + w + "\n session: " + rep.decoded.substr(0, 1500));
    }
    return true;
}

bool prop_C01(Tape& t, Report& rep)
{
    br::init_engine();
    {
        // plain regression witnesses (corpus/witness/C01.txt, one FEN per line): shrunk inputs of repaired findings, compared
        // with the oracle two plies deep without any generator in between, once per process
        static bool witnessesDone = false;
        if (!witnessesDone)
        {
            witnessesDone = true;
            std::ifstream wf(opt("witness_dir", "/verif/corpus/witness") + "/C01.txt");
            std::string line;
            while (std::getline(wf, line))
            {
                if (line.empty() || line[0] == '#') continue;
                ref::Pos wp;
                if (!ref::from_fen(line, wp) || !ref::domain_violation(wp).empty()) continue;
                rep.cls("c01:regression_witness");
                Position pos = br::from_fen(wp);
                Ctx c{rep};
                c.budget = 5000;
                if (!cmp(pos, wp, 2, c, "")) return rep.fail(c.fail_sig, c.fail_msg + "\n regression witness: " + line);
            }
        }
    }
    if (t.chance(1, 15)) return us::run(t, rep, us::F_C01);
    gen::Root root = gen::gen_root(t, &rep, 80);
    rep.decoded = root.describe();
    rep.cls("root:" + root.kind);
    if (t.chance(1, 12)) return c01_uci_perft(t, rep, root);
    // two ways of constructing the engine position: from FEN, or by replaying the game (the UCI path)
    bool viaReplay = !root.moves.empty() && t.flag();
    Position pos = viaReplay ? br::replay(root) : br::from_fen(root.cur);
    Ctx c{rep};
    int depth = int(opt_int("depth", g_tier ? 3 : 2));
    c.budget = uint64_t(opt_int("nodes", g_tier ? 20000 : 2500));
    if (!cmp(pos, root.cur, depth, c, ""))
        return rep.fail(c.fail_sig, c.fail_msg + "\n root: " + root.describe());
    // perft differential at the root (covers do/undo inside the engine's own perft)
    if (c.nodes < c.budget)
    {
        int pd = std::min(depth, 2);
        uint64_t e = engine::perft(pos, pd), o = ref::perft(root.cur, pd);
        if (e != o)
            return rep.fail("movegen:perft", "perft(" + std::to_string(pd) + ") engine=" + std::to_string(e) +
                                                 " oracle=" + std::to_string(o) + " at " + root.describe());
    }
    return true;
}
}  // namespace

REGISTER_PROP("C01", prop_C01, nullptr);
